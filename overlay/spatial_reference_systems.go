// Minimal reconstruction of sql/types/spatial_reference_systems.go, which is a
// 0-byte file at the pinned commit (see /root/.vp/EMPTIED_FILES.txt). Used
// through `go build -overlay` only while the /repo file is empty. No claimed
// property depends on SRID contents.

package types

// SpatialRef describes one spatial reference system.
type SpatialRef struct {
	Name          string
	ID            uint32
	Organization  string
	OrgCoordsysId uint32
	Definition    string
	Description   any
}

// SupportedSRIDs lists the spatial reference systems known to the engine.
var SupportedSRIDs = map[uint32]SpatialRef{
	0:    {Name: "", ID: 0, Organization: "", OrgCoordsysId: 0, Definition: "", Description: nil},
	3857: {Name: "WGS 84 / Pseudo-Mercator", ID: 3857, Organization: "EPSG", OrgCoordsysId: 3857, Definition: "PROJCS[\"WGS 84 / Pseudo-Mercator\"]", Description: nil},
	4326: {Name: "WGS 84", ID: 4326, Organization: "EPSG", OrgCoordsysId: 4326, Definition: "GEOGCS[\"WGS 84\"]", Description: nil},
}

#!/bin/bash
# setup: build the driver (does not link /repo) and warm the worker binaries.
set -e
export GOFLAGS=-mod=mod GOPROXY=off GOSUMDB=off GOTOOLCHAIN=local
cd /verif/cmd
GO=go1.26.8; command -v $GO >/dev/null || GO=go
mkdir -p /verif/bin
$GO build -o /verif/bin/verif ./verif
/verif/bin/verif build

module verif/cmd

go 1.26.2

// Command verif is the driver of the deterministic-simulation checks. It
// does not link go-mysql-server: it rebuilds the worker test binaries from
// /repo's current working tree (build tag verif, overlay for the emptied SRS
// file), fans runs out over worker processes, minimises and verifies a
// violation, prints VIOLATION / KNOWN-FINDING lines and writes the evidence
// file. Exit codes: 0 held, 1 violation, 2 the check itself is broken.
package main

import (
	"encoding/json"
	"flag"
	"fmt"
	"os"
	"os/exec"
	"path/filepath"
	"runtime"
	"sort"
	"strconv"
	"strings"
	"sync"
	"syscall"
	"time"
)

const verifDir = "/verif"

// The tree under test is /repo's working tree. VERIF_REPO names a frozen copy of
// it instead (a scratch git worktree): used only for long background sweeps, so
// that a seeded change applied to /repo for a moment cannot leak into them. The
// registered commands never set it.
var (
	repoDir = envOr("VERIF_REPO", "/repo")
	srsFile = filepath.Join(repoDir, "sql/types/spatial_reference_systems.go")
)


type violation struct {
	Oracle string `json:"oracle"`
	Class  string `json:"class"`
	Step   int    `json:"step"`
	Msg    string `json:"message"`
}

type result struct {
	Violation *violation      `json:"violation,omitempty"`
	Trace     []string        `json:"trace"`
	Tape      []uint32        `json:"tape"`
	Flags     map[string]bool `json:"flags"`
}

type sample struct {
	Run   uint64   `json:"run"`
	Trace []string `json:"trace"`
}

type findingHit struct {
	Count int    `json:"count"`
	Run   uint64 `json:"example_run"`
	Msg   string `json:"example"`
	What  string `json:"what"`
}

type summary struct {
	Worker       int                    `json:"worker"`
	Runs         int                    `json:"runs"`
	Nontrivial   int                    `json:"nontrivial"`
	Fingerprints []uint64               `json:"fingerprints"`
	Faults       map[string]int         `json:"faults"`
	Probes       map[string]int         `json:"probes"`
	Flags        map[string]int         `json:"flags"`
	SimTimeNs    int64                  `json:"sim_time_ns"`
	Steps        int64                  `json:"steps"`
	Samples      []sample               `json:"samples"`
	Reexec       int                    `json:"reexecuted"`
	Mismatch     int                    `json:"mismatches"`
	MismatchInfo string                 `json:"mismatch_info"`
	Findings     map[string]*findingHit `json:"findings"`
	Violation    *struct {
		Run    uint64          `json:"run"`
		Result json.RawMessage `json:"result"`
	} `json:"violation"`
	WallS  float64 `json:"wall_s"`
	Capped bool    `json:"capped_by_wallclock"`
}

type finding struct {
	Property string `json:"property"`
	ID       string `json:"id"`
	Status   string `json:"status"`
	Class    string `json:"class"`
	What     string `json:"what"`
	Commit   string `json:"commit,omitempty"`
}

func die2(format string, args ...any) {
	fmt.Fprintf(os.Stderr, "CHECK-BROKEN: "+format+"\n", args...)
	os.Exit(2)
}

func goEnv() []string {
	env := os.Environ()
	env = append(env, "GOFLAGS=-mod=mod", "GOPROXY=off", "GOSUMDB=off", "GOTOOLCHAIN=local")
	return env
}

func goTool() string {
	if p, err := exec.LookPath("go1.26.8"); err == nil {
		return p
	}
	return "go"
}

func workDir() string {
	d := filepath.Join(verifDir, "bin", "work")
	// VERIF_WORK names a separate scratch directory under bin/ (so that a long
	// sweep and a quick check started meanwhile do not rebuild each other's binaries)
	if w := os.Getenv("VERIF_WORK"); w != "" && !strings.ContainsAny(w, "/.") {
		d = filepath.Join(verifDir, "bin", w)
	}
	os.MkdirAll(d, 0o755)
	return d
}

// overlayArgs returns the -overlay argument when /repo's SRS file is empty.
func overlayArgs() []string {
	st, err := os.Stat(srsFile)
	if err != nil || st.Size() > 0 {
		return nil
	}
	p := filepath.Join(workDir(), "overlay.json")
	b, _ := json.Marshal(map[string]any{"Replace": map[string]string{srsFile: filepath.Join(verifDir, "overlay", "spatial_reference_systems.go")}})
	os.WriteFile(p, b, 0o644)
	return []string{"-overlay", p}
}

var buildMu sync.Mutex
var built = map[string]string{}

// buildWorld rebuilds the worker binary of a world from /repo's working tree.
func buildWorld(world string, race bool) string {
	buildMu.Lock()
	defer buildMu.Unlock()
	key := world
	if race {
		key += "-race"
	}
	if p, ok := built[key]; ok {
		return p
	}
	// keep go.sum in step with /repo's (plus what the harness itself needs)
	syncGoSum()
	out := filepath.Join(workDir(), key+".test")
	args := []string{"test", "-c", "-tags", "verif", "-vet=off"}
	if race {
		args = append(args, "-race")
	}
	args = append(args, overlayArgs()...)
	if repoDir != "/repo" {
		// same module file with the replace directive pointing at the copy
		mod, err := os.ReadFile(filepath.Join(verifDir, "sim", "go.mod"))
		if err != nil {
			die2("go.mod: %v", err)
		}
		alt := filepath.Join(workDir(), "alt.mod")
		os.WriteFile(alt, []byte(strings.ReplaceAll(string(mod), "=> /repo", "=> "+repoDir)), 0o644)
		sum, _ := os.ReadFile(filepath.Join(verifDir, "sim", "go.sum"))
		os.WriteFile(filepath.Join(workDir(), "alt.sum"), sum, 0o644)
		args = append(args, "-modfile="+alt)
	}
	args = append(args, "-o", out, "./"+world)
	cmd := exec.Command(goTool(), args...)
	cmd.Dir = filepath.Join(verifDir, "sim")
	cmd.Env = goEnv()
	start := time.Now()
	b, err := cmd.CombinedOutput()
	if err != nil {
		die2("build of %s failed (%v):\n%s", key, err, string(b))
	}
	fmt.Fprintf(os.Stderr, "built %s in %.1fs\n", key, time.Since(start).Seconds())
	built[key] = out
	return out
}

func syncGoSum() {
	src, err := os.ReadFile(filepath.Join(repoDir, "go.sum"))
	if err != nil {
		return
	}
	extra, _ := os.ReadFile(filepath.Join(verifDir, "sim", "go.sum.extra"))
	dst := filepath.Join(verifDir, "sim", "go.sum")
	want := append(append([]byte{}, src...), extra...)
	if cur, err := os.ReadFile(dst); err == nil && string(cur) == string(want) {
		return
	}
	os.WriteFile(dst, want, 0o644)
}

func loadFindings(property string) []finding {
	b, err := os.ReadFile(filepath.Join(verifDir, "known_findings.json"))
	if err != nil {
		return nil
	}
	var ff struct {
		Findings []finding `json:"findings"`
	}
	if err := json.Unmarshal(b, &ff); err != nil {
		die2("known_findings.json: %v", err)
	}
	var out []finding
	for _, f := range ff.Findings {
		if f.Property == property {
			out = append(out, f)
		}
	}
	return out
}

type workerRes struct {
	code int
	sum  *summary
	prog string
	out  string
}

func runWorker(bin string, env []string, timeout time.Duration) (int, string) {
	cmd := exec.Command(bin, "-test.run", "^TestWorker$", "-test.timeout", "0", "-test.v=false")
	// asyncpreemptoff: goroutines of a worker yield only where they block, never
	// at a wall-clock driven preemption signal, so that what runs between two
	// scheduler decisions does not depend on real time
	cmd.Env = append(append(os.Environ(), "GODEBUG=asyncpreemptoff=1"), env...)
	cmd.Dir = workDir()
	var outb strings.Builder
	cmd.Stdout = &outb
	cmd.Stderr = &outb
	cmd.SysProcAttr = &syscall.SysProcAttr{Setpgid: true}
	if err := cmd.Start(); err != nil {
		die2("start worker: %v", err)
	}
	done := make(chan error, 1)
	go func() { done <- cmd.Wait() }()
	select {
	case err := <-done:
		if err == nil {
			return 0, outb.String()
		}
		if ee, ok := err.(*exec.ExitError); ok {
			if ee.ExitCode() >= 0 {
				return ee.ExitCode(), outb.String()
			}
			return 137, outb.String()
		}
		die2("worker: %v", err)
	case <-time.After(timeout):
		syscall.Kill(-cmd.Process.Pid, syscall.SIGKILL)
		<-done
		return -1, outb.String()
	}
	return 0, ""
}

type subResult struct {
	sub       subCheck
	runs      int
	nontriv   int
	fps       map[uint64]struct{}
	faults    map[string]int
	probes    map[string]int
	flags     map[string]int
	simNs     int64
	steps     int64
	samples   []sample
	reexec    int
	findings  map[string]*findingHit
	wall      float64
	capped    bool
	violation string // replay path
	violMsg   string
}

func mergeInto(dst map[string]int, src map[string]int) {
	for k, v := range src {
		dst[k] += v
	}
}

func runSub(prop string, sub subCheck, tier string, seed uint64, runsOverride int, workers int, opts string) *subResult {
	bin := buildWorld(sub.World, sub.Race)
	runs := sub.Quick
	capS := sub.QuickCap
	if tier == "thorough" {
		runs = sub.Thorough
		capS = sub.ThoroughCap
	}
	if runsOverride > 0 {
		runs = runsOverride
	}
	if capS == 0 {
		capS = 120
	}
	if workers > runs {
		workers = runs
	}
	if sub.MaxWorkers > 0 && workers > sub.MaxWorkers {
		workers = sub.MaxWorkers
	}
	wd := workDir()
	tag := fmt.Sprintf("%s-%s-%d", sub.ID, tier, os.Getpid())
	findingsPath := filepath.Join(verifDir, "known_findings.json")
	baseEnv := []string{
		"VERIF_CHECK=" + sub.ID, "VERIF_TIER=" + tier, "VERIF_SEED=" + strconv.FormatUint(seed, 10),
		"VERIF_FINDINGS=" + findingsPath, "VERIF_OPTS=" + opts, "GOGC=" + gogc(sub), "GOMAXPROCS=" + strconv.Itoa(maxprocs(sub)),
	}
	res := make([]workerRes, workers)
	var wg sync.WaitGroup
	start := time.Now()
	for w := 0; w < workers; w++ {
		wg.Add(1)
		go func(w int) {
			defer wg.Done()
			out := filepath.Join(wd, fmt.Sprintf("%s-w%d.json", tag, w))
			prog := filepath.Join(wd, fmt.Sprintf("%s-w%d.prog", tag, w))
			os.Remove(out)
			env := append(append([]string{}, baseEnv...), "VERIF_MODE=batch", "VERIF_WORKER="+strconv.Itoa(w), "VERIF_WORKERS="+strconv.Itoa(workers),
				"VERIF_RUNS="+strconv.Itoa(runs), "VERIF_CAP_S="+strconv.Itoa(capS), "VERIF_OUT="+out, "VERIF_PROGRESS="+prog)
			code, output := runWorker(bin, env, time.Duration(capS+180)*time.Second)
			res[w] = workerRes{code: code, prog: prog, out: output}
			if b, err := os.ReadFile(out); err == nil {
				var s summary
				if json.Unmarshal(b, &s) == nil {
					res[w].sum = &s
				}
			}
			os.Remove(out)
		}(w)
	}
	wg.Wait()
	sr := &subResult{sub: sub, fps: map[uint64]struct{}{}, faults: map[string]int{}, probes: map[string]int{}, flags: map[string]int{}, findings: map[string]*findingHit{}}
	sr.wall = time.Since(start).Seconds()
	var violW = -1
	for w := range res {
		r := res[w]
		defer os.Remove(r.prog)
		if r.sum != nil {
			s := r.sum
			sr.runs += s.Runs
			sr.nontriv += s.Nontrivial
			for _, f := range s.Fingerprints {
				sr.fps[f] = struct{}{}
			}
			mergeInto(sr.faults, s.Faults)
			mergeInto(sr.probes, s.Probes)
			mergeInto(sr.flags, s.Flags)
			sr.simNs += s.SimTimeNs
			sr.steps += s.Steps
			if len(sr.samples) < 3 {
				sr.samples = append(sr.samples, s.Samples...)
			}
			sr.reexec += s.Reexec
			sr.capped = sr.capped || s.Capped
			for id, h := range s.Findings {
				if old := sr.findings[id]; old == nil {
					sr.findings[id] = h
				} else {
					old.Count += h.Count
				}
			}
		}
		switch {
		case r.code == 0 && r.sum != nil:
		case r.code == 3 && r.sum != nil && r.sum.Violation != nil:
			if violW < 0 || r.sum.Violation.Run < res[violW].sum.Violation.Run {
				violW = w
			}
		case r.code == 4 || (r.code == 2 && r.sum != nil && r.sum.Mismatch > 0):
			info := ""
			if r.sum != nil {
				info = r.sum.MismatchInfo
			}
			die2("%s worker %d reported harness trouble (exit %d): %s\n%s", sub.ID, w, r.code, info, tail(r.out, 30))
		case r.code == -1:
			die2("%s worker %d exceeded the watchdog (%ds + 180s)\n%s", sub.ID, w, capS, tail(r.out, 30))
		default:
			// the worker process died: a Go panic in a system goroutine, a runtime
			// fatal or a race-detector exit. Re-run that one run alone.
			run, ok := readProgress(r.prog)
			if !ok {
				die2("%s worker %d died (exit %d) before its first run:\n%s", sub.ID, w, r.code, tail(r.out, 40))
			}
			path, msg := handleCrash(prop, sub, bin, baseEnv, tier, seed, run, r.out, opts)
			if path == "" {
				die2("%s worker %d died at run %d (exit %d) but the death did not reproduce when that run was executed alone twice:\n%s", sub.ID, w, run, r.code, tail(r.out, 60))
			}
			sr.violation, sr.violMsg = path, msg
			return sr
		}
	}
	if violW >= 0 {
		v := res[violW].sum.Violation
		in := filepath.Join(wd, tag+"-viol.json")
		b, _ := json.Marshal(v)
		os.WriteFile(in, b, 0o644)
		defer os.Remove(in)
		var rr result
		json.Unmarshal(v.Result, &rr)
		replay := filepath.Join(verifDir, "replays", fmt.Sprintf("%s-%s-seed%d-run%d.json", prop, sub.ID, seed, v.Run))
		os.MkdirAll(filepath.Dir(replay), 0o755)
		env := append(append([]string{}, baseEnv...), "VERIF_MODE=shrink", "VERIF_IN="+in, "VERIF_OUT="+replay, "VERIF_SHRINK_S="+strconv.Itoa(shrinkBudget(sub)))
		code, output := runWorker(bin, env, time.Duration(shrinkBudget(sub)+120)*time.Second)
		minimised := code == 0
		if !minimised {
			// fall back to the unminimised tape
			writeReplay(replay, prop, sub.ID, seed, v.Run, tier, opts, rr, "minimisation failed: "+tail(output, 5))
		}
		// verify in a fresh process
		env = append(append([]string{}, baseEnv...), "VERIF_MODE=replay", "VERIF_IN="+replay)
		code, output = runWorker(bin, env, 10*time.Minute)
		if code != 1 && minimised {
			writeReplay(replay, prop, sub.ID, seed, v.Run, tier, opts, rr, "minimised tape did not reproduce in a fresh process; unminimised tape written")
			code, output = runWorker(bin, env, 10*time.Minute)
		}
		// A violation that depends on something no seed controls inside the code under test (the
		// iteration order of a Go map, the thread interleaving inside a C36b overlap group) need not show
		// on every execution of its tape: the replay is tried a few times before the check is called broken.
		for try := 0; code != 1 && try < 6; try++ {
			code, output = runWorker(bin, env, 10*time.Minute)
			if code == 1 {
				fmt.Fprintf(os.Stderr, "note: %s replay reproduced on attempt %d only (the violation depends on a choice no seed controls)\n", sub.ID, try+2)
			}
		}
		if code != 1 {
			die2("%s: violation at run %d (%s/%s: %s) did not reproduce from its replay file %s (replay exit %d)\n%s", sub.ID, v.Run, rr.Violation.Oracle, rr.Violation.Class, rr.Violation.Msg, replay, code, tail(output, 30))
		}
		sr.violation = replay
		sr.violMsg = fmt.Sprintf("%s/%s: %s", rr.Violation.Oracle, rr.Violation.Class, firstLine(rr.Violation.Msg))
	}
	return sr
}

func gogc(sub subCheck) string {
	if sub.GC != "" {
		return sub.GC
	}
	return "200"
}

func maxprocs(sub subCheck) int {
	if sub.Procs > 0 {
		return sub.Procs
	}
	return 1
}

func shrinkBudget(sub subCheck) int {
	if sub.ShrinkS > 0 {
		return sub.ShrinkS
	}
	return 60
}

func firstLine(s string) string {
	if i := strings.IndexByte(s, '\n'); i >= 0 {
		return s[:i]
	}
	return s
}

func tail(s string, n int) string {
	lines := strings.Split(strings.TrimRight(s, "\n"), "\n")
	if len(lines) > n {
		lines = lines[len(lines)-n:]
	}
	return strings.Join(lines, "\n")
}

func readProgress(path string) (uint64, bool) {
	b, err := os.ReadFile(path)
	if err != nil || len(b) < 20 {
		return 0, false
	}
	v, err := strconv.ParseUint(strings.TrimSpace(string(b[:20])), 10, 64)
	return v, err == nil
}

func writeReplay(path, prop, sub string, seed, run uint64, tier, opts string, rr result, note string) {
	m := map[string]any{"property": sub, "seed": seed, "run": run, "tier": tier, "opts": optsMap(opts), "tape": rr.Tape, "minimised": false,
		"violation": rr.Violation, "trace": rr.Trace, "note": note, "claimed_property": prop}
	b, _ := json.MarshalIndent(m, "", " ")
	os.WriteFile(path, b, 0o644)
}

func optsMap(s string) map[string]string {
	m := map[string]string{}
	for _, kv := range strings.Split(s, ",") {
		if kv == "" {
			continue
		}
		k, v, _ := strings.Cut(kv, "=")
		m[k] = v
	}
	return m
}

// handleCrash re-runs one run index alone, twice; if the process dies both
// times the death is the violation and the replay regenerates the tape from
// (seed, check, run).
func handleCrash(prop string, sub subCheck, bin string, baseEnv []string, tier string, seed, run uint64, firstOut, opts string) (string, string) {
	replay := filepath.Join(verifDir, "replays", fmt.Sprintf("%s-%s-seed%d-run%d-crash.json", prop, sub.ID, seed, run))
	os.MkdirAll(filepath.Dir(replay), 0o755)
	m := map[string]any{"property": sub.ID, "claimed_property": prop, "seed": seed, "run": run, "tier": tier, "opts": optsMap(opts), "tape": nil, "minimised": false,
		"violation": nil, "trace": strings.Split(tail(firstOut, 60), "\n"), "note": "the worker process died during this run (panic in a system goroutine, runtime fatal or race report); the tape is regenerated from seed and run index"}
	b, _ := json.MarshalIndent(m, "", " ")
	os.WriteFile(replay, b, 0o644)
	env := append(append([]string{}, baseEnv...), "VERIF_MODE=replay", "VERIF_IN="+replay)
	deaths := 0
	var last string
	for i := 0; i < 2; i++ {
		code, out := runWorker(bin, env, 10*time.Minute)
		if code != 0 && code != 1 && code != 4 {
			deaths++
			last = out
		} else if code == 1 {
			// it is an ordinary, recoverable violation when run alone
			return replay, "violation (process death in batch, oracle failure alone): " + tail(out, 3)
		}
	}
	if deaths == 2 {
		return replay, "worker process dies in system code: " + crashHeadline(last)
	}
	os.Remove(replay)
	return "", ""
}

func crashHeadline(out string) string {
	for _, l := range strings.Split(out, "\n") {
		if strings.HasPrefix(l, "panic:") || strings.HasPrefix(l, "fatal error:") || strings.Contains(l, "WARNING: DATA RACE") {
			return l
		}
	}
	return firstLine(tail(out, 1))
}

func main() {
	if len(os.Args) < 2 {
		fmt.Fprintln(os.Stderr, "usage: verif check <property> [--tier quick|thorough] | replay <property> <file> | selftest | list | build")
		os.Exit(2)
	}
	switch os.Args[1] {
	case "check":
		cmdCheck(os.Args[2:])
	case "replay":
		cmdReplay(os.Args[2:])
	case "selftest":
		cmdSelftest(os.Args[2:])
	case "build":
		for _, w := range worlds() {
			buildWorld(w.world, w.race)
		}
	case "list":
		for _, p := range properties {
			fmt.Printf("%s:", p.ID)
			for _, s := range p.Subs {
				fmt.Printf(" %s(%s)", s.ID, s.World)
			}
			fmt.Println()
		}
	default:
		die2("unknown command %s", os.Args[1])
	}
}

type worldKey struct {
	world string
	race  bool
}

func worlds() []worldKey {
	seen := map[worldKey]bool{}
	var out []worldKey
	for _, p := range properties {
		for _, s := range p.Subs {
			k := worldKey{s.World, s.Race}
			if !seen[k] {
				seen[k] = true
				out = append(out, k)
			}
		}
	}
	return out
}

func findProp(id string) *propCheck {
	for i := range properties {
		if properties[i].ID == id {
			return &properties[i]
		}
	}
	return nil
}

func cmdCheck(args []string) {
	fs := flag.NewFlagSet("check", flag.ExitOnError)
	tier := fs.String("tier", envOr("VERIF_TIER", "quick"), "quick or thorough")
	seedS := fs.String("seed", envOr("VERIF_SEED", "1"), "seed")
	runs := fs.Int("runs", 0, "override number of runs per sub-check")
	workers := fs.Int("workers", runtime.NumCPU(), "worker processes")
	opts := fs.String("opts", os.Getenv("VERIF_OPTS"), "k=v,... passed to the check")
	only := fs.String("only", "", "run only this sub-check")
	noEvidence := fs.Bool("no-evidence", false, "do not write the evidence file")
	if len(args) < 1 {
		die2("check needs a property id")
	}
	id := args[0]
	fs.Parse(args[1:])
	if *tier != "quick" && *tier != "thorough" {
		*tier = "quick"
	}
	seed, err := strconv.ParseUint(*seedS, 10, 64)
	if err != nil {
		// any string is accepted as a seed: hash it
		var h uint64 = 1469598103934665603
		for _, c := range []byte(*seedS) {
			h = (h ^ uint64(c)) * 1099511628211
		}
		seed = h >> 1
	}
	p := findProp(id)
	if p == nil {
		die2("property %s has no check (not claimed)", id)
	}
	if *workers > 16 {
		*workers = 16
	}
	start := time.Now()
	known := loadFindings(p.ID)
	var subs []*subResult
	violations := 0
	for _, sub := range p.Subs {
		if *only != "" && sub.ID != *only {
			continue
		}
		sr := runSub(p.ID, sub, *tier, seed, *runs, *workers, *opts)
		subs = append(subs, sr)
		fmt.Printf("%s %s: %d runs (%d non-trivial, %d distinct traces), %.1fs, faults=%v\n", p.ID, sub.ID, sr.runs, sr.nontriv, len(sr.fps), sr.wall, compact(sr.faults))
		if sr.violation != "" {
			violations++
			fmt.Printf("  %s\n", sr.violMsg)
			fmt.Printf("VIOLATION property=%s replay=%s\n", p.ID, sr.violation)
			break
		}
	}
	hits := map[string]int{}
	for _, sr := range subs {
		for id, h := range sr.findings {
			hits[id] += h.Count
		}
	}
	for _, f := range known {
		if f.Status == "known" {
			fmt.Printf("KNOWN-FINDING: property=%s %s [%s] (matched in %d runs of this invocation)\n", p.ID, f.What, f.ID, hits[f.ID])
		}
	}
	if !*noEvidence {
		writeEvidence(p, subs, *tier, seed, time.Since(start).Seconds(), violations, hits)
	}
	if violations > 0 {
		os.Exit(1)
	}
	fmt.Printf("OK property=%s tier=%s seed=%d wall=%.1fs\n", p.ID, *tier, seed, time.Since(start).Seconds())
}

func compact(m map[string]int) string {
	keys := make([]string, 0, len(m))
	for k := range m {
		keys = append(keys, k)
	}
	sort.Strings(keys)
	var parts []string
	for _, k := range keys {
		parts = append(parts, fmt.Sprintf("%s:%d", k, m[k]))
	}
	return "{" + strings.Join(parts, " ") + "}"
}

func envOr(k, def string) string {
	if v := os.Getenv(k); v != "" {
		return v
	}
	return def
}

func writeEvidence(p *propCheck, subs []*subResult, tier string, seed uint64, wall float64, violations int, hits map[string]int) {
	evals, distinct := 0, 0
	var samples []any
	perSub := map[string]any{}
	faults := map[string]int{}
	probes := map[string]int{}
	var simNs int64
	reexec := 0
	var unreached []string
	for _, sr := range subs {
		evals += sr.runs
		distinct += len(sr.fps)
		simNs += sr.simNs
		reexec += sr.reexec
		for _, s := range sr.samples {
			if len(samples) < 4 {
				samples = append(samples, map[string]any{"sub_check": sr.sub.ID, "run": s.Run, "trace": s.Trace})
			}
		}
		for k, v := range sr.faults {
			faults[sr.sub.ID+"/"+k] += v
		}
		for k, v := range sr.probes {
			probes[sr.sub.ID+"/"+k] += v
		}
		for _, want := range sr.sub.Probes {
			if sr.probes[want] == 0 && sr.faults[want] == 0 {
				unreached = append(unreached, sr.sub.ID+"/"+want)
			}
		}
		rph := 0.0
		if sr.wall > 0 {
			rph = float64(sr.runs) / sr.wall * 3600
		}
		perSub[sr.sub.ID] = map[string]any{
			"world": sr.sub.World, "runs": sr.runs, "nontrivial": sr.nontriv, "distinct_traces": len(sr.fps), "wall_s": sr.wall,
			"runs_per_hour": int64(rph), "sim_time_s": float64(sr.simNs) / 1e9, "scheduler_steps": sr.steps, "faults_fired": sr.faults, "probes": sr.probes,
			"config_split": sr.flags, "capped_by_wallclock": sr.capped, "selfcheck_reexecuted": sr.reexec, "race_detector": sr.sub.Race,
		}
	}
	if len(samples) == 0 {
		samples = append(samples, "no non-trivial run in this invocation")
	}
	kf := map[string]int{}
	for k, v := range hits {
		kf[k] = v
	}
	cov := map[string]any{
		"evaluations":         evals,
		"distinct_nontrivial": distinct,
		"rule":                p.Rule,
		"samples":             samples,
		"sub_checks":          perSub,
		"seeds":               []uint64{seed},
		"sim_time_s":          float64(simNs) / 1e9,
		"faults_fired":        faults,
		"probes":              probes,
		"unreached_probes":    unreached,
		"components":          map[string]any{"real": p.Real, "stub": p.Stub},
		"selfcheck":           map[string]any{"reexecuted": reexec, "mismatches": 0},
		"known_findings_matched": kf,
	}
	ev := map[string]any{
		"property_id": p.ID, "tier": tier, "seed": seed, "level": p.Level, "coverage": cov,
		"assumptions": p.Assumptions, "wall_s": wall, "violations": violations,
	}
	b, _ := json.MarshalIndent(ev, "", " ")
	os.MkdirAll(filepath.Join(verifDir, "evidence"), 0o755)
	if err := os.WriteFile(filepath.Join(verifDir, "evidence", p.ID+".json"), b, 0o644); err != nil {
		die2("write evidence: %v", err)
	}
}

func cmdReplay(args []string) {
	if len(args) < 2 {
		die2("usage: replay <property> <file>")
	}
	p := findProp(args[0])
	if p == nil {
		die2("unknown property %s", args[0])
	}
	b, err := os.ReadFile(args[1])
	if err != nil {
		die2("%v", err)
	}
	var rf struct {
		Property string `json:"property"`
	}
	json.Unmarshal(b, &rf)
	for _, sub := range p.Subs {
		if sub.ID == rf.Property {
			bin := buildWorld(sub.World, sub.Race)
			abs, _ := filepath.Abs(args[1])
			env := []string{"VERIF_CHECK=" + sub.ID, "VERIF_MODE=replay", "VERIF_IN=" + abs, "GOGC=" + gogc(sub), "GOMAXPROCS=" + strconv.Itoa(maxprocs(sub)),
				"VERIF_FINDINGS=" + filepath.Join(verifDir, "known_findings.json")}
			code, out := runWorker(bin, env, 30*time.Minute)
			fmt.Print(out)
			if code == 1 {
				fmt.Printf("VIOLATION property=%s replay=%s\n", p.ID, abs)
				os.Exit(1)
			}
			if code == 0 {
				fmt.Println("replay: property held")
				os.Exit(0)
			}
			if code == 4 {
				os.Exit(2)
			}
			// process death
			fmt.Printf("VIOLATION property=%s replay=%s\n", p.ID, abs)
			os.Exit(1)
		}
	}
	die2("replay file names sub-check %q which %s does not have", rf.Property, p.ID)
}

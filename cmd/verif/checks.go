package main

import (
	"fmt"
	"os"
	"path/filepath"
	"strconv"
	"strings"
	"time"
)

// subCheck is one simulated check living in one world's worker binary.
type subCheck struct {
	ID          string
	World       string
	Race        bool
	Quick       int // runs in the quick tier
	Thorough    int
	QuickCap    int // wall-clock cap in seconds per worker batch
	ThoroughCap int
	MaxWorkers  int
	Procs       int // GOMAXPROCS of a worker (default 1)
	GC          string
	ShrinkS     int
	Probes      []string // probes/faults that must be reached; listed under unreached_probes otherwise
}

// propCheck groups the sub-checks deciding one property.
type propCheck struct {
	ID          string
	Level       string
	Rule        string
	Real        []string
	Stub        []string
	Assumptions []string
	Subs        []subCheck
}

var properties = []propCheck{
	{
		ID: "C38", Level: "exploration",
		Rule: "one evaluation = one simulated run (one seed-derived tape: 2-4 sessions, 1-3 lock names, scheduler-chosen interleaving at every armed yield site before each atomic load/CAS, simulated clock for timeouts); non-trivial = at least one armed yield site actually parked a goroutine (C38a) / two connections contended (C38b); distinct = distinct hash of the abstract event-kind sequence (call/return kinds, resume sites, clock advances)",
		Real: []string{"sql.LockSubsystem", "sql.BaseSession lock set", "GET_LOCK family via engine (C38b)"},
		Stub: []string{"goroutine scheduling at yield sites (simulator)", "clock (testing/synctest bubble)"},
		Assumptions: []string{"interleavings are explored at the yield sites in sql/lock_subsystem.go and at call boundaries, not at every memory access",
			"histories are bounded (<= 4 sessions, <= 3 names, <= 28 operations) so that porcupine decides them; Unknown results are counted, never reported"},
		Subs: []subCheck{
			{ID: "C38a", World: "unitsim", Quick: 120000, Thorough: 6000000, QuickCap: 60, ThoroughCap: 900,
				Probes: []string{"cas-window-opened", "lock-timed-out", "yield:lock.create"}},
			{ID: "C38b", World: "wiresim", Quick: 1600, Thorough: 100000, QuickCap: 80, ThoroughCap: 1200, GC: "100",
				Probes: []string{"holder-connection-reset", "stall"}},
		},
	},
}

func init() {
	properties = append(properties,
		propCheck{
			ID: "C37", Level: "exploration",
			Rule: "one evaluation = one simulated run: 2-5 connections (C37a: ProcessList API calls following the handler's calling contract, the tape choosing whose call comes next and when kills arrive; C37b: whole server in the simulated network); non-trivial = at least two connections interleaved; distinct = distinct hash of the event-kind sequence",
			Real: []string{"sqle.ProcessList", "sql.StatusVariables (Threads_connected, Threads_running)", "context cancellation wiring"},
			Stub: []string{"the caller side of the handler contract (harness)"},
			Assumptions: []string{"every ProcessList method is a single critical section, so interleaving at call boundaries is complete for the API-level check",
				"connections follow the calling contract of server/handler.go and server/context.go (no RemoveConnection while the same connection's query is in flight)",
				"C37b ends with clients that never authenticate (leave after the greeting / after their response / refused) before its closing-phase oracle (process list empty, Threads_connected back)", "the single-critical-section assumption is itself guarded by C37r: real goroutines (connections cycling queries, killers, observers) on GOMAXPROCS=4 in a race-detector build; there the schedule is the Go runtime's, so only a data race report, a panic and the joined end state are judged"},
			Subs: []subCheck{
				{ID: "C37a", World: "unitsim", Quick: 60000, Thorough: 3000000, QuickCap: 60, ThoroughCap: 900, Probes: []string{"kill-hit-running-work", "kill", "stale-endquery-while-next-query-runs"}},
				{ID: "C37r", World: "unitsim", Race: true, Procs: 4, MaxWorkers: 4, Quick: 400, Thorough: 40000, QuickCap: 90, ThoroughCap: 900, ShrinkS: 60,
					Probes: []string{}},
				{ID: "C37b", World: "wiresim", Quick: 2400, Thorough: 150000, QuickCap: 80, ThoroughCap: 1200, GC: "100",
					Probes: []string{"kill-query-hit-running-statement", "processlist-compared", "kill-connection", "reset-mid-statement"}},
			},
		},
		propCheck{
			ID: "C15", Level: "fault_enumeration",
			Rule: "one evaluation = one simulated run: a generated schema (keyed/keyless/composite table, secondary and unique indexes, CHECKs, defaults, generated column, optional FK child, optional triggers + audit table, optional INSERT..SELECT source) and 1-10 generated DML statements; for EVERY statement the injected storage error is placed at every row-edit call k = 1..N (enumerated, until the statement runs through without the fault firing) and natural failures are planted at drawn row positions; after each failing execution full scans of all tables and index-driven probes must equal the state before, from the executing session and from an observer session; non-trivial = at least one fault fired or a statement with >= 1 row edit ran; distinct = distinct hash of the (statement kind, error class, fired) sequence",
			Real: []string{"parser", "planbuilder", "analyzer", "rowexec (insert/update/delete/trigger/FK iterators)", "sql/plan TableEditorIter", "memory table editor and session"},
			Stub: []string{"storage error source: verifhook.Fault at the top of tableEditor.Insert/Update/Delete (simulator decides which call fails)"},
			Assumptions: []string{"fault positions are enumerated per statement up to 80 edit calls; schemas, data and statements are sampled",
				"AUTO_INCREMENT columns are excluded here (gaps after a failed insert are allowed; C20 covers the counter)"},
			Subs: []subCheck{
				{ID: "C15", World: "sqlsim", Quick: 8000, Thorough: 400000, QuickCap: 80, ThoroughCap: 1500, GC: "100",
					Probes: []string{"natural-failure-after-edits", "edit-error:replace", "edit-error:odku", "edit-error:insert-select", "natural-failure:fk", "natural-failure:check"}},
			},
		},
		propCheck{
			ID: "C17", Level: "exploration",
			Rule: "one evaluation = one simulated multi-session history (2-4 sessions, 1-2 tables, 6-40 steps: BEGIN / START TRANSACTION [READ ONLY] / COMMIT / ROLLBACK / SET autocommit / INSERT / UPDATE / DELETE / duplicate insert / injected storage error inside a transaction / session drop with an open transaction / reads), the tape choosing which session acts next; regime S (serial: one open transaction at a time, others read) checks every read against a committed+pending model, regime V (arbitrary overlap) checks attribution of unique values: nothing uncommitted or rolled back is ever visible; non-trivial = at least two sessions; distinct = distinct hash of the action-kind sequence",
			Real: []string{"engine transaction begin/commit (engine.go, rowexec/transaction_iters.go)", "memory.Session staging/commit/rollback", "memory table editor"},
			Stub: []string{"session scheduling at statement granularity (simulator)", "storage error source (verifhook.Fault)"},
			Assumptions: []string{"statements of different sessions are interleaved at statement granularity, never overlapped in real parallelism (README: the in-memory backend supports one writer goroutine at a time)",
				"DDL inside an open transaction is not generated (C17 does not speak about implicit commits)"},
			Subs: []subCheck{
				{ID: "C17", World: "sqlsim", Quick: 16000, Thorough: 800000, QuickCap: 80, ThoroughCap: 1500, GC: "100",
					Probes: []string{"rollback", "session-drop", "edit-error-in-transaction"}},
			},
		},
		propCheck{
			ID: "C13", Level: "exploration",
			Rule: "one evaluation = one simulated DML history: a generated schema (single/composite/string/no primary key, unique, prefix and secondary keys, CHECKs, defaults, NOT NULL, stored/virtual generated column, _bin and _ai_ci strings), 1-3 autocommit sessions interleaved by the tape, 4-24 statements (multi-row INSERT / INSERT IGNORE / REPLACE / ON DUPLICATE KEY UPDATE / UPDATE and DELETE with WHERE, ORDER BY pk, LIMIT), natural failures planted at drawn rows and an injected storage error on ~1/7 of the statements; after every statement the error kind, affected / matched / changed counts and the full table contents must equal the reference table model; non-trivial = >= 2 sessions or a fault fired; distinct = distinct hash of the (statement kind, outcome) sequence",
			Real: []string{"parser, planbuilder, analyzer, rowexec insert/update/delete iterators", "memory table editor, edit accumulators, session table data"},
			Stub: []string{"session scheduling at statement granularity", "storage error source (verifhook.Fault)"},
			Assumptions: []string{"the reference model (sim/sqlsim/model.go) is the oracle: MySQL-documented semantics on a deliberately narrow fragment; statements whose outcome depends on an unspecified processing order accept every legitimate outcome",
				"AUTO_INCREMENT is excluded (C20)", "REPLACE hitting more than one row: contents compared, count not (engine reports 1+1, MySQL 1+n)"},
			Subs: []subCheck{
				{ID: "C13", World: "sqlsim", Quick: 12000, Thorough: 600000, QuickCap: 80, ThoroughCap: 1500, GC: "100",
					Probes: []string{"edit-error", "natural-failure:duplicate-key", "natural-failure:check", "order-dependent-statement"}},
			},
		},
		propCheck{
			ID: "C14", Level: "exploration",
			Rule: "one evaluation = one simulated DML history as in C13 with schemas biased to composite and string primary keys, unique keys over utf8mb4_0900_ai_ci columns, prefix unique keys and NULLs in unique columns, values chosen to collide under naive encodings ('1','23' vs '12','3'; 'ab' vs 'AB'); after every statement (a) no two rows of the observed table are equal on a primary or unique key under the harness's own collation/prefix equality and (b) a statement is rejected as duplicate iff the reference model finds a duplicate; includes failure-then-continue histories (injected errors, rejected statements) that would expose accumulator leakage; non-trivial = >= 2 sessions or a fault fired; distinct = distinct hash of the (statement kind, outcome) sequence",
			Real: []string{"memory table editor key checks (Insert, checkUniqueConstraints, GetByCols, columnsMatch, getRowKey)", "rowexec insert (IGNORE / REPLACE / ON DUPLICATE KEY UPDATE)"},
			Stub: []string{"session scheduling at statement granularity", "storage error source (verifhook.Fault)"},
			Assumptions: []string{"collation equality is decided by the harness on an alphabet where case folding is unarguable ([a-cA-C0-9])"},
			Subs: []subCheck{
				{ID: "C14", World: "sqlsim", Quick: 12000, Thorough: 600000, QuickCap: 80, ThoroughCap: 1500, GC: "100",
					Probes: []string{"edit-error", "natural-failure:duplicate-key"}},
			},
		},
		propCheck{
			ID: "C16", Level: "exploration",
			Rule: "one evaluation = one simulated DML/DDL history (INSERT / REPLACE / UPDATE / DELETE, CREATE INDEX on existing data, DROP INDEX, TRUNCATE, injected storage errors and rejected statements in between, 1-3 sessions); after the steps, for every index: equality lookups on present and absent keys, a range, IS NULL and a two-column lookup must return exactly the reference model's rows satisfying the predicate; EXPLAIN is sampled to count how often the index path was really used; non-trivial = >= 2 sessions or a fault fired; distinct = distinct hash of the (statement kind, outcome) sequence",
			Real: []string{"memory index storage maintenance (addRowToIndexes, deleteRowFromIndexes, sortSecondaryIndexes, createIndex)", "analyzer index selection, IndexedTableAccess"},
			Stub: []string{"session scheduling at statement granularity", "storage error source (verifhook.Fault)"},
			Assumptions: []string{"the expected rows come from the reference model filtered by the harness's own predicate evaluation"},
			Subs: []subCheck{
				{ID: "C16", World: "sqlsim", Quick: 6000, Thorough: 300000, QuickCap: 80, ThoroughCap: 1500, GC: "100",
					Probes: []string{"index-path-used", "index-created-on-existing-data", "edit-error"}},
			},
		},
		propCheck{
			ID: "C19", Level: "exploration",
			Rule: "one evaluation = one simulated DML history over schemas with CHECK constraints, NOT NULL columns, constant defaults and a stored or virtual generated column; after every statement the harness evaluates on the observed rows: no CHECK is FALSE, no NULL in a NOT NULL column, every generated column equals its expression, and table contents equal the reference model (defaults applied for omitted columns); injected storage errors and rejected statements in between; non-trivial = >= 2 sessions or a fault fired; distinct = distinct hash of the (statement kind, outcome) sequence",
			Real: []string{"planbuilder check loading, insert/update check evaluation, default and generated column projection", "memory table editor"},
			Stub: []string{"session scheduling at statement granularity", "storage error source (verifhook.Fault)"},
			Assumptions: []string{"CHECK / generated expressions are limited to col op const, colA op colB and col + 1"},
			Subs: []subCheck{
				{ID: "C19", World: "sqlsim", Quick: 12000, Thorough: 600000, QuickCap: 80, ThoroughCap: 1500, GC: "100",
					Probes: []string{"edit-error", "natural-failure:check", "natural-failure:not-null"}},
			},
		},
		propCheck{
			ID: "C11", Level: "exploration",
			Rule: "one evaluation = one simulated history: 2-3 sessions, a pool of 3-6 query texts (IN / EXISTS / NOT IN / scalar / correlated subqueries, a CTE used twice, joins, LEFT JOIN + grouping, a view) re-executed plainly and through SQL PREPARE/EXECUTE between DML and DDL (CREATE/DROP INDEX, ANALYZE TABLE) of the same and other sessions, failed statements, injected storage errors, BEGIN/COMMIT/ROLLBACK (one open transaction at a time), reconnects, DEALLOCATE; oracle: warm result = result of the same text on a freshly opened session at the same instant = result on a freshly built engine loaded with the current rows; the same query twice in a row gives the same result; non-trivial = always (>= 2 sessions); distinct = distinct hash of the action sequence",
			Real: []string{"plan caching / prepared statements, subquery and CTE caches (CachedResults), hash join build sides, session table snapshots", "memory backend"},
			Stub: []string{"session scheduling at statement granularity", "storage error source (verifhook.Fault)"},
			Assumptions: []string{"the cold references are computed by the engine itself (fresh session, fresh engine): a defect shared by warm and cold paths of a single statement is C02's business, not C11's"},
			Subs: []subCheck{
				{ID: "C11", World: "sqlsim", Quick: 2400, Thorough: 200000, QuickCap: 80, ThoroughCap: 1500, GC: "100",
					Probes: []string{"fresh-engine-compared", "prepared", "rollback", "session-drop"}},
			},
		},
		propCheck{
			ID: "C12", Level: "exploration",
			Rule: "one evaluation = one simulated history over two identical engines: 13 parameterised statement templates (SELECT with =, >, IN, BETWEEN, <=>, LIMIT ?, parameter-only SELECT, expression with a parameter; INSERT / UPDATE / DELETE) executed on engine 1 through SQL PREPARE + EXECUTE USING @vars (handles re-executed with new values) or through Engine.QueryWithBindings, and on engine 2 as text with the values spliced in as literals by the harness; parameter values: NULL, small and boundary integers, doubles, strings with quotes, backslashes, %, _ and empty; an admin history (ALTER TABLE ADD/DROP/MODIFY COLUMN, DROP + CREATE TABLE, index changes, DML) is applied to both between executions; oracle: result rows, OK counts, error kind and table contents agree at every step; non-trivial = a parameterised statement ran; distinct = distinct hash of the (template, path) sequence",
			Real: []string{"PREPARE/EXECUTE/DEALLOCATE, Engine.QueryWithBindings, bind-variable substitution, prepared plan caching and re-analysis after schema changes"},
			Stub: []string{"none below the engine API; both engines are real and fed the same logical history"},
			Assumptions: []string{"the literal form is written by the harness's own quoting ('' and \\\\ doubling)", "the binary wire protocol path is not part of this sub-check"},
			Subs: []subCheck{
				{ID: "C12", World: "sqlsim", Quick: 6000, Thorough: 300000, QuickCap: 80, ThoroughCap: 1500, GC: "100",
					Probes: []string{"handle-re-executed", "schema-changed-under-handle"}},
				// C12b: the binary protocol: kept COM_STMT_PREPARE handles executed with typed
				// parameters by the go-sql-driver client against table tp, the same statement as
				// text against the twin table tl, both at once over the simulated network
				// (fragmentation, stalls), schema changes between executions
				{ID: "C12b", World: "wiresim", Quick: 1500, Thorough: 100000, QuickCap: 80, ThoroughCap: 1200, GC: "100",
					Probes: []string{"handle-re-executed", "schema-changed-under-handle", "fragment"}},
			},
		},
		propCheck{
			ID: "C18", Level: "exploration",
			Rule: "one evaluation = one simulated history over a generated foreign-key graph (chain of 2-4 tables, diamond, self reference with optional child table, or a 'deep' chain whose unique column k references the k of the level above) with ON DELETE / ON UPDATE actions drawn from RESTRICT, NO ACTION, CASCADE, SET NULL: tables are populated top-down, then 6-28 (thorough: -48) statements by two sessions: multi-row INSERT with valid, NULL and dangling references and planted duplicates; UPDATE re-pointing a foreign key column, moving the referenced unique column of many rows, changing a referenced primary key; DELETE by id, id list, range, or all; ALTER TABLE DROP FOREIGN KEY and later ADD it again over the data present; in half of the runs a storage error is injected at a drawn edit call (1-5) of a third of the statements, cascades included. After every statement: all tables equal a reference model that applies the actions row by row (evaluated under both row orders and both orders of a table's foreign keys; when those disagree any of them is accepted), every non-NULL child value has a parent (computed from the rows read back), equality reads through every foreign-key index agree with the table, the error kind is the model's, a failed statement (natural or injected) leaves every table unchanged; non-trivial = the graph has a foreign key; distinct = distinct hash of the statement-kind/outcome sequence",
			Real: []string{"analyzer applyForeignKeys, plan.ForeignKeyHandler / ForeignKeyEditor (cascade, set null, restrict chains)", "memory foreign key collection, table editors and their secondary indexes", "ALTER TABLE ADD / DROP FOREIGN KEY execution and validation of existing data"},
			Stub: []string{"session scheduling at statement granularity (two sessions alternate)", "storage error source (verifhook.Fault at memory table editor calls)"},
			Assumptions: []string{"MySQL (InnoDB) semantics: RESTRICT and NO ACTION are both checked immediately, row by row", "a row that references itself, ON UPDATE CASCADE / SET NULL on a self reference or on a table reachable over two paths are not generated (MySQL special-cases them)", "DELETE without WHERE on a table referenced only by itself may empty the table at once (the engine turns it into a truncation; no orphan can result) or fail as MySQL's row-by-row check would", "when a row is wrong in two ways (duplicate key and missing parent) either error is accepted", "foreign_key_checks stays on; composite keys and REPLACE / ON DUPLICATE KEY UPDATE on parents are not generated"},
			Subs: []subCheck{
				{ID: "C18", World: "sqlsim", Quick: 4000, Thorough: 300000, QuickCap: 90, ThoroughCap: 1500, GC: "100",
					Probes: []string{"cascade-delete", "cascade-update", "set-null-on-delete", "set-null-on-update", "multi-level", "failure-inside-cascade", "order-dependent-outcome", "fk-re-added", "fk-add-refused-over-orphans"}},
			},
		},
		propCheck{
			ID: "C21", Level: "exploration",
			Rule: "one evaluation = one simulated history on a generated table (INT primary key plus 1-4 columns of tinyint / smallint / int / bigint / varchar(4|12), nullable or not, 2-8 rows with boundary values and numeric / non-numeric / long strings and NULLs): 3-16 (thorough: -30) steps of ALTER TABLE ADD COLUMN (default or not, FIRST / AFTER), DROP COLUMN, RENAME COLUMN, MODIFY / CHANGE COLUMN to another type and nullability, ADD / DROP PRIMARY KEY, ADD [UNIQUE] INDEX, DROP INDEX, RENAME TABLE, issued by two sessions and interleaved with inserts that fit the model's schema; in half of the runs a storage error is injected at edit call 1-4 of a third of the ALTERs (table rewrite, index build). After every statement: SELECT * equals the model (retained columns keep their values; converted when representable: integer range, canonical integer text, string length, NULL into NOT NULL, uniqueness under a new or modified key), a change the model cannot carry out on the data present must fail, a failed statement leaves rows and DESCRIBE unchanged, after success both sessions read the model's rows and DESCRIBE (field, type, null, key, default) and information_schema.columns (name, data type, nullability, order) show the model's schema; distinct = distinct hash of the operation-kind/outcome sequence",
			Real: []string{"ALTER TABLE planning and execution (sql/rowexec/ddl_iters.go: add / drop / modify / rename column, primary key and index changes, table rewrite)", "memory table schema changes, rewrite editor, index build", "DESCRIBE, information_schema.columns"},
			Stub: []string{"session scheduling at statement granularity (two sessions alternate)", "storage error source (verifhook.Fault at memory table editor calls)"},
			Assumptions: []string{"strict SQL mode (the default): a value that does not fit the new type makes the ALTER fail rather than being adjusted", "only canonical integer text ('12', '-4') counts as representable in an integer column", "collation changes, generated columns, multi-column keys and partitioned tables are not generated here"},
			Subs: []subCheck{
				{ID: "C21", World: "sqlsim", Quick: 4000, Thorough: 300000, QuickCap: 90, ThoroughCap: 1500, GC: "100"},
			},
		},
		propCheck{
			ID: "C23", Level: "exploration",
			Rule: "one evaluation = one simulated history on table t with a generated trigger set: 1-6 initial triggers plus CREATE / DROP TRIGGER during the history, BEFORE / AFTER x INSERT / UPDATE / DELETE, several per time and event placed with FOLLOWS / PRECEDES, bodies of 1-3 steps drawn from: write an audit row (trigger name, row id, OLD.a, NEW.a, NEW.b) into lg, SET NEW.a = NEW.a + k, SET NEW.b from OLD / NEW, IF .. THEN SIGNAL; 5-24 (thorough: -40) multi-row INSERT / UPDATE / DELETE statements by two sessions, with planted duplicate keys, SIGNAL conditions and storage errors at a drawn edit call (of t or lg) in the runs that do not steer away from the known finding. After every statement: t equals the model (NEW as left by the BEFORE triggers is what is stored), affected rows = changed rows, and the audit rows written since the previous statement are, per affected row, exactly the model's sequence: every trigger once, in the order given by creation and FOLLOWS / PRECEDES, seeing the OLD / NEW values of its position in the chain; a failed statement leaves neither rows in t nor audit rows; distinct = distinct hash of the statement-kind/outcome sequence",
			Real: []string{"analyzer applyTriggers / plan.OrderTriggers, trigger executor and rollback iterators", "CREATE / DROP TRIGGER, SIGNAL, BEGIN..END blocks, SET NEW.x", "engine + memory backend (t and the audit table)"},
			Stub: []string{"session scheduling at statement granularity (two sessions alternate)", "storage error source (verifhook.Fault at memory table editor calls)"},
			Assumptions: []string{"the order in which a multi-row UPDATE / DELETE visits rows is not prescribed: audit rows are compared per affected row, not across rows", "UPDATE statements always change a column, so whether triggers fire for unchanged rows is not exercised", "the engine refuses to DROP a trigger that another one names in FOLLOWS / PRECEDES (MySQL would drop it); accepted, not part of the property", "REPLACE / ON DUPLICATE KEY UPDATE and triggers reading other tables are not generated"},
			Subs: []subCheck{
				{ID: "C23", World: "sqlsim", Quick: 4000, Thorough: 300000, QuickCap: 90, ThoroughCap: 1500, GC: "100",
					Probes: []string{"multi-trigger-row-checked", "trigger-placed-with-follows-precedes", "drop-of-referenced-trigger-refused"}},
			},
		},
		propCheck{
			ID: "C36", Level: "exploration",
			Rule: "one evaluation = one simulated run over a fixed database (two indexed tables, a view, 60 + 90 rows): 2-8 sessions registered with the process list, 1-4 rounds; in every round the tape picks the overlap group (which sessions take part) and 1-5 statements per member out of 34 read-only statements (scans, index lookups, inner / left joins, grouping, DISTINCT, UNION, CTE, window function, correlated and IN / NOT EXISTS subqueries, view reads, information_schema tables / columns / statistics, SHOW TABLES / CREATE TABLE / INDEX / COLUMNS / VARIABLES, EXPLAIN, system variables, CONNECTION_ID(), user variables, SQL_CALC_FOUND_ROWS / FOUND_ROWS(), SQL-level PREPARE / EXECUTE). C36a: the members' statements are interleaved one by one in an order chosen by the tape. C36b: the members run on real goroutines, released together, three passes per round, in a build with the race detector at GOMAXPROCS 4. Oracles: every result equals the result of that statement run alone before; session state stays with its session (user variable, connection id, FOUND_ROWS() right after the session's own query, prepared statement names); no panic; C36b: no report of the race detector and no 'concurrent map' fatal; after every round the process list shows every connection idle, none lost, and Threads_running is back at its starting value; non-trivial = every run (>= 2 sessions overlap); distinct = distinct hash of the (group size, statement list) sequence",
			Real: []string{"engine (parse, bind, analyze, execute) on a shared Engine / Catalog / memory database", "sqle.ProcessList and sql.StatusVariables", "information_schema and SHOW execution", "grouping / join iterators that start goroutines of their own"},
			Stub: []string{"C36a: session scheduling at statement granularity (simulator)", "C36b: the simulator decides only the overlap groups; which thread runs when inside a group is left to the Go scheduler (see Assumptions)"},
			Assumptions: []string{"C36b deviates from exact replay on purpose: a cooperative scheduler's hand-offs are happens-before edges and would hide every data race from any detector, so group members run on real threads and the race detector is the invariant monitor; a finding is identified by the pair of engine functions of the two racing accesses; runs of C36b are not re-executed by the determinism self-check (the detector reports a racing pair once per process)", "the wire layer is not part of this check (C35 / C37b cover it); writes are excluded, as the in-memory backend documents"},
			Subs: []subCheck{
				{ID: "C36a", World: "sqlsim", Quick: 3000, Thorough: 200000, QuickCap: 90, ThoroughCap: 1500, GC: "100"},
				{ID: "C36b", World: "sqlsim", Race: true, Procs: 4, MaxWorkers: 4, Quick: 300, Thorough: 20000, QuickCap: 150, ThoroughCap: 1800, GC: "100", ShrinkS: 120,
					Probes: []string{"overlap-group"}},
			},
		},
		propCheck{
			ID: "C39", Level: "exploration",
			Rule: "one evaluation = one simulated history of 4-30 administrative statements by root (CREATE USER / ROLE, GRANT and REVOKE of 10 privilege kinds or ALL at the global, database, table and routine level, to users and roles, GRANT / REVOKE role, DROP USER / ROLE) over 3 users and 2 roles; after every statement every user's allow/deny outcome over 8 effect-free probe statements (SELECT/INSERT/UPDATE/DELETE on three tables, CALL) is taken from a long-lived session (privilege cache) and from a fresh session and compared with a privilege model (own grants united with the grants of every granted role, global or database or object level); in 2/3 of the steps one user also runs one statement with an effect (INSERT, UPDATE, DELETE, INSERT..SELECT, REPLACE, CREATE/DROP/ALTER TABLE, CREATE INDEX, CREATE USER): allowed iff the model holds every required privilege, allowed => the state changed, denied => the state read by root is unchanged; distinct = distinct hash of the statement-kind/outcome sequence",
			Real: []string{"planbuilder authorization (HandleAuth), plan.Grant / Revoke / CreateUser / DropUser / roles execution", "mysql_db.MySQLDb, PrivilegeSet, role edges, per-session privilege cache (update counter)", "engine + memory backend"},
			Stub: []string{"session scheduling at statement granularity (sessions of different users interleave between statements)", "persister (in-memory, fault-free in this check)"},
			Assumptions: []string{"SET ROLE is not implemented by the engine (every granted role is active, as documented in UserActivePrivilegeSet), so role activation is not generated", "column-level grants and privilege kinds outside the 10 generated ones are not covered", "statements whose required privileges differ between MySQL versions (UPDATE .. WHERE reading columns, TRUNCATE) are not generated"},
			Subs: []subCheck{
				{ID: "C39", World: "sqlsim", Quick: 2400, Thorough: 150000, QuickCap: 90, ThoroughCap: 1500, GC: "100",
					Probes: []string{"effect-allowed", "effect-denied"}},
			},
		},
		propCheck{
			ID: "C41", Level: "exploration",
			Rule: "one evaluation = one simulated history of 4-30 administrative statements (as in C39, incl. routine-level and ALL grants) against an engine whose persister is a simulated disk with atomic-replace semantics; each Persist call is hit with probability 1/2 by: an I/O error (nothing replaced), a crash before the replace, a crash right after it; after a crash the engine is discarded and a fresh engine loads the durable blob; after half of the acknowledged statements a second fresh engine loads the durable blob and is compared with the live one: identical SHOW GRANTS for every account and identical allow/deny matrix for every user; after a crash the restarted engine must equal the last durable state (crash before) or the old or new state (crash after); after a failed Persist the durable blob is unchanged and the live engine is in the old or the new state, never a mixture; distinct = distinct hash of the statement-kind/fault/outcome sequence",
			Real: []string{"mysql_db serialization (flatbuffers) and LoadData", "mysql_db.MySQLDb editor / Persist path of every account statement", "SHOW GRANTS, authorization of the probe statements"},
			Stub: []string{"disk (simDisk: atomic replace, injected error / crash-before / crash-after)", "process restart = new engine + LoadData of the durable bytes"},
			Assumptions: []string{"the integrator's persister replaces the blob atomically (the interface hands over one complete blob per call)", "the order of roles inside one GRANT line of SHOW GRANTS is presentation, not state", "the root superuser is ephemeral and re-added by the integrator after a restart"},
			Subs: []subCheck{
				{ID: "C41", World: "sqlsim", Quick: 2400, Thorough: 150000, QuickCap: 90, ThoroughCap: 1500, GC: "100",
					Probes: []string{"live-state-ahead-of-durable"}},
			},
		},
		propCheck{
			ID: "C43", Level: "exploration",
			Rule: "one evaluation = one simulated DDL history of 4-22 (thorough: -40) statements by two sessions (root, accounts enabled) over tables (CREATE with optional unique / plain index and CHECK, DROP, RENAME), columns (ADD with FIRST / AFTER, DROP), indexes (ADD [UNIQUE], DROP), foreign keys (ADD, DROP), CHECK constraints (ADD, DROP), views, triggers and procedures (CREATE, DROP), plus inserts; statements that must fail are planted (existing or missing object, duplicate index name, DROP TABLE of a table still referenced by a foreign key) and in half of the runs a storage error is injected into a quarter of the statements. After every statement both sessions read information_schema.TABLES, VIEWS, COLUMNS (with ordinal position), STATISTICS, TABLE_CONSTRAINTS, REFERENTIAL_CONSTRAINTS, CHECK_CONSTRAINTS, KEY_COLUMN_USAGE, TRIGGERS, ROUTINES and SHOW TABLES / FULL TABLES / COLUMNS / INDEX / TRIGGERS / CREATE TABLE; each must list exactly the objects of a catalog model with the attributes the model carries (owning table, column order, uniqueness, referenced table, trigger timing and event, object type), SHOW CREATE TABLE must name every column, index and constraint of the table and none that was dropped; a statement the model refuses must fail, a failed statement changes nothing; distinct = distinct hash of the statement-kind/outcome sequence",
			Real: []string{"sql/information_schema (tables, columns, statistics, constraints, triggers, routines, views)", "SHOW statement execution (sql/rowexec/show*.go)", "DDL execution and the memory backend's catalog (tables, views, triggers, stored procedures, foreign keys, checks)"},
			Stub: []string{"session scheduling at statement granularity (two sessions alternate, so one session reads what the other defined)", "storage error source (verifhook.Fault at memory table editor calls)"},
			Assumptions: []string{"foreign keys are added on child columns that already carry an index (which index a foreign key creates implicitly is not prescribed here)", "tables with foreign keys or triggers are not renamed", "accounts are enabled and both sessions are root: with no account at all the engine's information_schema.routines / parameters list nothing (they filter on a privilege set that is never computed in that mode); noted in DESIGN.md, not claimed"},
			Subs: []subCheck{
				{ID: "C43", World: "sqlsim", Quick: 1200, Thorough: 100000, QuickCap: 90, ThoroughCap: 1500, GC: "100"},
			},
		},
		propCheck{
			ID: "C51", Level: "exploration",
			Rule: "one evaluation = one simulated history on a table with a FULLTEXT index over body or (title, body), columns in a case-insensitive or a binary collation: 4-20 (thorough: -36) steps by two sessions of INSERT (1-3 documents of 0-6 words from a 13-word vocabulary in varying case, short noise tokens, separators incl. hyphen and punctuation, NULLs), UPDATE of body / title, appending UPDATE over several rows, DELETE, REPLACE, BEGIN .. ROLLBACK / COMMIT, DROP INDEX and ADD FULLTEXT INDEX over the rows present, ADD / DROP COLUMN (table rewrite), a no-op UPDATE; in half of the runs a storage error is injected at edit call 1-8 of a quarter of the statements (the full-text editor writes several internal tables per row). After every step both sessions run three MATCH .. AGAINST searches (1-3 words, other case, absent and too-short words, with and without IN NATURAL LANGUAGE MODE) and one relevance > 0 filter: the ids returned must be exactly the documents containing at least one search word (words = runs of letters, digits, underscore of 3+ characters, compared under the column collation); the table equals the model; a failed statement leaves table and search results unchanged; distinct = distinct hash of the statement-kind/outcome sequence",
			Real: []string{"sql/fulltext (default parser, editor, index tables), MATCH .. AGAINST expression and full-text filter / index access", "memory backend full-text pseudo-tables, table rewrite with full-text indexes, transactions", "DML / DDL execution"},
			Stub: []string{"session scheduling at statement granularity (two sessions alternate; while a transaction is open only its session works)", "storage error source (verifhook.Fault at memory table editor calls, the full-text tables included)"},
			Assumptions: []string{"ASCII vocabulary: accent handling of the collations is not exercised", "relevance values and result order by relevance are not compared, only membership", "boolean mode and query expansion are not generated (the property speaks of natural-language mode)"},
			Subs: []subCheck{
				{ID: "C51", World: "sqlsim", Quick: 3000, Thorough: 200000, QuickCap: 90, ThoroughCap: 1500, GC: "100",
					Probes: []string{"non-empty-search-checked", "fulltext-index-rebuilt-over-rows"}},
			},
		},
		propCheck{
			ID: "C44", Level: "exploration",
			Rule: "one evaluation = one simulated multi-session history over 13 representative system variables (bool, bounded int, double, enum; both-scope, global-only, read-only) and 3 user variables: SET [SESSION|GLOBAL|default] with valid, boundary, out-of-range and wrong-type values, wrong scopes and read-only variables; SET @u = NULL / int / string / expression; sessions connect (inherit the current globals) and disconnect; after every step the touched variable is read in every scope of every session, and periodically everything is, against a model (global store + per-session store initialised from the globals + per-session user variables); non-trivial = >= 2 sessions; distinct = distinct hash of the action/outcome sequence",
			Real: []string{"SET / SELECT @@ planning and execution", "sql.SystemVariables global registry, BaseSession system and user variable stores, system variable types' Convert"},
			Stub: []string{"session scheduling at statement granularity"},
			Assumptions: []string{"only the scoping / validation machinery over representatives of each system type is claimed, not 'all system variables x all values'", "an out-of-range numeric value may be rejected or adjusted into the bounds; a wrong-type value, wrong scope or read-only variable must be rejected without effect"},
			Subs: []subCheck{
				{ID: "C44", World: "sqlsim", Quick: 1600, Thorough: 100000, QuickCap: 90, ThoroughCap: 1500, GC: "100",
					Probes: []string{"rejected-set", "session-drop"}},
			},
		},
		propCheck{
			ID: "C42", Level: "exploration",
			Rule: "one evaluation = one simulated history of 2-3 sessions (one of them without autocommit in a quarter of the runs) over a writable database (tables, a view, a trigger, writing / reading / branching procedures) beside a memory.ReadOnlyDatabase: the tape decides who runs, when the engine's ReadOnly flag flips, when a session starts / ends a READ ONLY or READ WRITE transaction and which of ~75 statement shapes it issues (reads incl. views, joins with the read-only database, SELECT .. FOR UPDATE / INTO @v, SHOW, EXPLAIN, PREPARE; INSERT / INSERT..SELECT / ON DUPLICATE KEY / REPLACE / UPDATE / UPDATE JOIN / DELETE / TRUNCATE, writes through a trigger, CALL, EXECUTE of a prepared write; CREATE / DROP / ALTER / RENAME of tables, columns, indexes, views, triggers, procedures, databases; the same against the read-only database); oracles after every statement: under a read-only mode the committed state (digest of all schemas, rows, views, triggers, procedures, databases, read by an observer) is unchanged, a write or schema statement is refused, a read succeeds with the result it has outside the mode; outside every mode no statement is refused with a read-only error; ending a READ ONLY transaction changes nothing; non-trivial = every run; distinct = distinct hash of the action/outcome sequence",
			Real: []string{"engine.readOnlyCheck and every plan node's IsReadOnly", "analyzer validateReadOnlyDatabase / validateReadOnlyTransaction", "START TRANSACTION / COMMIT / ROLLBACK execution, transaction committing iterator, procedure interpreter", "memory.ReadOnlyDatabase, memory session transactions"},
			Stub: []string{"session scheduling at statement granularity", "the integrator flipping Engine.ReadOnly (done by the simulator between transactions)"},
			Assumptions: []string{"the in-memory backend has no temporary tables: the temporary-table exception of READ ONLY transactions is not exercised", "CALL of a SQL routine that does not write may be refused under the engine flag (the engine declares every SQL routine as possibly writing); inside a READ ONLY transaction it must run", "the engine flag flips only while no transaction has pending work; DDL outside the modes runs between transactions (implicit commits are C17's subject)", "results of reads are compared with the observer's only while no other session committed since the reader's transaction began (the backend has no isolation between overlapping transactions)"},
			Subs: []subCheck{
				{ID: "C42", World: "sqlsim", Quick: 4000, Thorough: 200000, QuickCap: 90, ThoroughCap: 1500, GC: "100",
					Probes: []string{}},
			},
		},
		propCheck{
			ID: "C20", Level: "exploration",
			Rule: "one evaluation = one simulated history on a table with an AUTO_INCREMENT primary key (INT / BIGINT / INT UNSIGNED / TINYINT UNSIGNED, optional UNIQUE key for failing inserts): multi-row inserts mixing NULL / 0 / omitted / explicit ids (above the maximum, unused below it, existing), inserts failing at a drawn row, injected storage errors, deletes of the maximum row and of everything, ALTER TABLE .. AUTO_INCREMENT = n below and above the maximum, BEGIN/COMMIT/ROLLBACK, session drops, 1-2 sessions with never-overlapping writers; oracle: every generated and stored value is unique among all generated values ever stored, greater than every value stored before the statement, increasing inside a statement; OkResult.InsertID and LAST_INSERT_ID() = first generated value of the session's last successful generating insert, unchanged by failed inserts and by other sessions; non-trivial = 2 sessions or a fault fired; distinct = distinct hash of the action/outcome sequence",
			Real: []string{"insert iterator auto-increment handling, accumulator OK result", "memory table editor auto-increment counter, ALTER TABLE AUTO_INCREMENT"},
			Stub: []string{"session scheduling at statement granularity", "storage error source (verifhook.Fault)"},
			Assumptions: []string{"gaps are allowed; a value consumed only by a failed or rolled-back statement may come again; an explicit ALTER TABLE .. AUTO_INCREMENT resets the baseline as MySQL does", "UPDATE of the auto column is not generated"},
			Subs: []subCheck{
				{ID: "C20", World: "sqlsim", Quick: 8000, Thorough: 400000, QuickCap: 80, ThoroughCap: 1500, GC: "100",
					Probes: []string{"generated-value-checked", "max-row-deleted", "failed-insert", "rollback"}},
			},
		},
		propCheck{
			ID: "C35", Level: "exploration",
			Rule: "one evaluation = one simulated run of the whole server (vitess listener/conn code, handler with spool pipeline and disconnect watcher, engine) in a synctest bubble on the simulated network: 1-4 real go-sql-driver connections issue text-protocol SELECTs whose result sizes sit on the seams of the spool pipeline (0,1,127..129,255..257,511..514,640+ rows; >= 5 batches), binary-protocol prepared SELECTs, aggregates, planning errors, errors raised while iterating, OK results (INSERT/UPDATE/DELETE with affected rows and last insert id), SLEEP; the tape decides delivery order between connections, fragmentation (incl. inside the 4-byte packet header), stalls while the clock advances, a bounded server->client half (back-pressure) and connection resets in the middle of a statement; oracle: client-observed columns, row sequence, counts and error numbers equal the engine's own result for the same statement (rendered by the harness), prefix-only under reset, every statement completes within 120 simulated seconds after the last fault, and after all clients ended the process list and Threads_* counters are back to zero; non-trivial = >= 2 connections or a fault fired; distinct = distinct hash of the event-kind sequence",
			Real: []string{"server.Handler (doQuery, resultFor*Iter spool pipeline, connection watcher)", "vitess mysql.Listener / Conn protocol code", "go-sql-driver/mysql client", "engine + memory backend"},
			Stub: []string{"sockets (simnet: scheduler-owned byte delivery)", "clock (synctest bubble)"},
			Assumptions: []string{"interleaving is decided at network-delivery and client-operation granularity; the order in which the spool pipeline's goroutines run between two deliveries is left to the Go scheduler (GOMAXPROCS=1, asyncpreemptoff), and statements whose outcome depends on Go's random choice among ready select cases (errors raised after the first row) are confined to the volatile sub-check",
				"write statements are exclusive (README: one writer goroutine at a time); resets are placed inside read-only statements so that the expected state stays known"},
			Subs: []subCheck{
				{ID: "C35", World: "wiresim", Quick: 2400, Thorough: 200000, QuickCap: 100, ThoroughCap: 1500, GC: "100",
					Probes: []string{"fragment", "stall", "reset-mid-statement", "result-batches:5", "result-batches:6", "error-delivered:select-row-error"}},
				// C35s: what a connection sees after statements that fail: 2-4 connections take
				// turns with succeeding and failing writes (duplicate key while executing),
				// statements failing at plan time, COM_STMT_PREPARE that succeeds (handle kept) or
				// fails, and reads of the table over the text protocol, kept handles and fresh
				// prepared statements; every read must equal the sum of the acknowledged writes
				{ID: "C35s", World: "wiresim", Quick: 4000, Thorough: 300000, QuickCap: 80, ThoroughCap: 1200, GC: "100",
					Probes: []string{"failed-statement:insert-dup", "failed-statement:update-dup", "failed-statement:plan-error", "fragment"}},
			},
		},
		propCheck{
			ID: "C40", Level: "exploration",
			Rule: "one evaluation = one simulated run of the server with the privilege database enabled: 1-4 accounts (host patterns %, localhost, 10.%, an exact IP; password or none; locked or not) and 2-8 login attempts by a raw protocol client from drawn client addresses over the simulated network: right / wrong / empty / foreign password, unknown user, with the auth response truncated to a drawn length, extended, bit-flipped, replaced by garbage or sent twice, the client leaving after the greeting or after its response, fragmented delivery, and an admin session re-creating accounts locked/unlocked or changing passwords between attempts; oracle: accepted iff an unlocked account matches user and client address and the proof sent equals the honest proof for the account's password (empty for a no-password account), CURRENT_USER() = the matched account, every refusal is an ERR packet, nothing is left in the process list, and a final well-formed login succeeds; non-trivial = always; distinct = distinct hash of the (fault, step, verdict) sequence",
			Real: []string{"vitess handshake / auth negotiation code, mysql_db.MySQLDb ValidateHash and native-password verification, CREATE/ALTER/DROP USER", "server connection setup and teardown"},
			Stub: []string{"sockets (simnet), client (raw protocol client of the harness computing the SHA1 scramble itself)", "clock (synctest bubble)"},
			Assumptions: []string{"only mysql_native_password is exercised; user names are unique per run, so overlapping host patterns for one user are out of scope", "a response sent twice is only checked for survival (the duplicate is read as a command)"},
			Subs: []subCheck{
				{ID: "C40", World: "wiresim", Quick: 12000, Thorough: 600000, QuickCap: 80, ThoroughCap: 1200, GC: "100",
					Probes: []string{"handshake-truncate0", "handshake-extend0", "handshake-flip0", "handshake-1", "handshake-2", "fragment"}},
			},
		},
		propCheck{
			ID: "C45", Level: "exploration",
			Rule: "one evaluation = one simulated run: 2-4 tasks redact generated statements and single lexemes through one shared Mapping, the scheduler interleaving them at the RUnlock->Lock upgrade window; non-trivial = the upgrade window actually parked a goroutine; distinct = distinct hash of the event-kind sequence",
			Real: []string{"sqlredact.Mapping", "sqlredact.RedactSQLForTraceInto", "vitess tokenizer and parser"},
			Stub: []string{"goroutine scheduling at the upgrade window (simulator)"},
			Assumptions: []string{"only the concurrency clause and a sampled grammar are decided; the all-inputs clause of C45 is sampled as a by-product, not claimed exhaustively"},
			Subs: []subCheck{
				{ID: "C45", World: "unitsim", Quick: 60000, Thorough: 3000000, QuickCap: 60, ThoroughCap: 900, Probes: []string{"upgrade-window-opened", "keyword-name-unparseable"}},
			},
		},
		propCheck{
			ID: "C48", Level: "exploration",
			Rule: "one evaluation = one generated program: a tree (depth <= 3) of errgroups, plain and WithContext, whose functions run through errguard.Go and return nil, return a unique error or panic with one of nine kinds of value; the scheduler decides the completion order by releasing one waiting function at a time; non-trivial = at least two functions released; distinct = distinct hash of the release-kind sequence",
			Real: []string{"errguard.Go", "golang.org/x/sync/errgroup"},
			Stub: []string{"completion order (simulator releases functions one at a time inside a synctest bubble)"},
			Assumptions: []string{"a panic that escaped errguard would kill the worker process; the driver re-runs that run alone and reports the death as the violation"},
			Subs: []subCheck{
				{ID: "C48", World: "unitsim", Quick: 100000, Thorough: 5000000, QuickCap: 60, ThoroughCap: 900, Probes: []string{"panic-kind-5", "panic-kind-6", "panic-kind-7"}},
			},
		},
	)
}

// cmdSelftest: every sub-check's first N runs are executed in fresh processes
// at GOMAXPROCS 1, 4 and 16 (and twice at 16); the per-run digests of the
// complete event logs must be identical. A difference is exit 2.
func cmdSelftest(args []string) {
	n := 300
	if len(args) > 0 {
		if v, err := strconv.Atoi(args[0]); err == nil {
			n = v
		}
	}
	only := ""
	if len(args) > 1 {
		only = args[1]
	}
	bad := 0
	for _, p := range properties {
		for _, sub := range p.Subs {
			if only != "" && sub.ID != only {
				continue
			}
			if sub.Race {
				continue // the race sub-check's replay guarantee is weaker by design (DESIGN.md C36)
			}
			bin := buildWorld(sub.World, sub.Race)
			var ref []string
			start := time.Now()
			for i, procs := range []int{1, 4, 16, 16} {
				dp := filepath.Join(workDir(), fmt.Sprintf("selftest-%s-%d.digests", sub.ID, i))
				out := filepath.Join(workDir(), fmt.Sprintf("selftest-%s-%d.json", sub.ID, i))
				env := []string{"VERIF_CHECK=" + sub.ID, "VERIF_MODE=batch", "VERIF_SEED=7", "VERIF_RUNS=" + strconv.Itoa(n), "VERIF_OUT=" + out,
					"VERIF_DIGESTS=" + dp, "GOMAXPROCS=" + strconv.Itoa(procs), "VERIF_CAP_S=600", "VERIF_FINDINGS=" + filepath.Join(verifDir, "known_findings.json")}
				code, output := runWorker(bin, env, 15*time.Minute)
				if code != 0 && code != 3 {
					die2("selftest %s at GOMAXPROCS=%d: worker exit %d\n%s", sub.ID, procs, code, tail(output, 20))
				}
				b, _ := os.ReadFile(dp)
				lines := strings.Split(strings.TrimSpace(string(b)), "\n")
				os.Remove(dp)
				os.Remove(out)
				if ref == nil {
					ref = lines
					continue
				}
				if len(lines) != len(ref) {
					fmt.Printf("selftest %s: %d vs %d runs at GOMAXPROCS=%d\n", sub.ID, len(ref), len(lines), procs)
					bad++
					continue
				}
				for j := range ref {
					if ref[j] != lines[j] {
						fmt.Printf("selftest %s: run diverges at GOMAXPROCS=%d: %q vs %q\n", sub.ID, procs, ref[j], lines[j])
						bad++
						break
					}
				}
			}
			fmt.Printf("selftest %s: %d runs x 4 processes (GOMAXPROCS 1,4,16,16) identical=%v %.1fs\n", sub.ID, len(ref), bad == 0, time.Since(start).Seconds())
		}
	}
	if bad > 0 {
		os.Exit(2)
	}
}

package sqlsim

import (
	"fmt"
	"sort"
	"strings"

	"github.com/dolthub/go-mysql-server/sql"
)

// Snapshot is a canonical, comparable rendering of the observable state of a
// set of tables: full scans plus a set of index-driven probe queries.
type Snapshot struct {
	Lines []string
	Rows  map[string][]sql.Row // full-scan rows per table
}

// Equal compares two snapshots; returns the first differing line pair.
func (a *Snapshot) Equal(b *Snapshot) (bool, string) {
	n := len(a.Lines)
	if len(b.Lines) < n {
		n = len(b.Lines)
	}
	for i := 0; i < n; i++ {
		if a.Lines[i] != b.Lines[i] {
			return false, fmt.Sprintf("before: %s | after: %s", a.Lines[i], b.Lines[i])
		}
	}
	if len(a.Lines) != len(b.Lines) {
		return false, fmt.Sprintf("%d vs %d snapshot lines", len(a.Lines), len(b.Lines))
	}
	return true, ""
}

// queryLine runs q and renders "q => rows" (sorted rows) or the error class.
func (s *Sess) queryLine(q string) (string, []sql.Row) {
	r := s.Exec(q)
	if r.Err != nil {
		return q + " => ERROR " + ErrClass(r.Err), nil
	}
	return q + " => " + strings.Join(FormatRows(r.Rows, false), " "), r.Rows
}

// ProbeQueries derives index-driven lookups from rows of table t: for every
// key, equality on each present first-column value (capped), one absent
// value, a range and IS NULL.
func ProbeQueries(t *TableDef, rows []sql.Row) []string {
	var qs []string
	for _, k := range t.Keys {
		ci := k.Cols[0]
		c := t.Cols[ci]
		seen := map[string]bool{}
		var vals []string
		for _, r := range rows {
			if ci >= len(r) || r[ci] == nil {
				continue
			}
			v := FormatVal(r[ci])
			if !seen[v] {
				seen[v] = true
				vals = append(vals, v)
			}
		}
		sort.Strings(vals)
		if len(vals) > 5 {
			vals = vals[:5]
		}
		for _, v := range vals {
			qs = append(qs, fmt.Sprintf("SELECT * FROM `%s` WHERE `%s` = %s", t.Name, c.Name, v))
		}
		if c.Kind == KInt {
			qs = append(qs, fmt.Sprintf("SELECT * FROM `%s` WHERE `%s` = 99", t.Name, c.Name))
			qs = append(qs, fmt.Sprintf("SELECT * FROM `%s` WHERE `%s` > 3", t.Name, c.Name))
			qs = append(qs, fmt.Sprintf("SELECT * FROM `%s` WHERE `%s` BETWEEN 1 AND 6", t.Name, c.Name))
		} else {
			qs = append(qs, fmt.Sprintf("SELECT * FROM `%s` WHERE `%s` = 'zz'", t.Name, c.Name))
			qs = append(qs, fmt.Sprintf("SELECT * FROM `%s` WHERE `%s` >= 'B'", t.Name, c.Name))
		}
		if c.Nullable {
			qs = append(qs, fmt.Sprintf("SELECT * FROM `%s` WHERE `%s` IS NULL", t.Name, c.Name))
		}
		if len(k.Cols) > 1 && len(rows) > 0 {
			r := rows[0]
			if r[k.Cols[0]] != nil && r[k.Cols[1]] != nil {
				qs = append(qs, fmt.Sprintf("SELECT * FROM `%s` WHERE `%s` = %s AND `%s` = %s", t.Name, c.Name, FormatVal(r[k.Cols[0]]), t.Cols[k.Cols[1]].Name, FormatVal(r[k.Cols[1]])))
			}
		}
	}
	return qs
}

// Snap renders the state of the tables as seen by session s. extra tables
// (audit, shadow tables) are full-scanned only. probes fixes the probe set
// (so that before/after use the same queries); nil derives it from the data.
func (s *Sess) Snap(tables []*TableDef, extra []string, probes []string) (*Snapshot, []string) {
	sn := &Snapshot{Rows: map[string][]sql.Row{}}
	derive := probes == nil
	for _, t := range tables {
		line, rows := s.queryLine("SELECT * FROM `" + t.Name + "`")
		sn.Lines = append(sn.Lines, line)
		sn.Rows[t.Name] = rows
		if derive {
			probes = append(probes, ProbeQueries(t, rows)...)
		}
	}
	for _, q := range probes {
		line, _ := s.queryLine(q)
		sn.Lines = append(sn.Lines, line)
	}
	// side tables (audit, shadow tables) last, so that a difference in them is
	// only reported when everything about the main tables agreed
	for _, e := range extra {
		line, rows := s.queryLine("SELECT * FROM `" + e + "`")
		sn.Lines = append(sn.Lines, line)
		sn.Rows[e] = rows
	}
	return sn, probes
}

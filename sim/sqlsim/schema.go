package sqlsim

import (
	"fmt"
	"strconv"
	"strings"

	"verif/sim/kernel"
)

// The generated SQL fragment is deliberately narrow (DESIGN.md section 4) so
// that reference models can be exact.

// Val is a model value: nil (NULL), int64 or string.
type Val any

// ColKind enumerates column types of the fragment.
type ColKind int

const (
	KInt ColKind = iota // TINYINT/INT/BIGINT [UNSIGNED]
	KStr                // VARCHAR(n)
)

// Col is one column definition.
type Col struct {
	Name     string
	Kind     ColKind
	SQLType  string // e.g. "TINYINT", "INT UNSIGNED", "VARCHAR(8)"
	Min, Max int64  // int range
	Len      int    // varchar length
	CI       bool   // utf8mb4_0900_ai_ci (else default utf8mb4_0900_bin)
	Nullable bool
	HasDef   bool
	Default  Val
	AutoInc  bool
	GenFrom  int // >=0: generated as cols[GenFrom] + 1
	Stored   bool
}

// Key is a primary, unique or secondary index.
type Key struct {
	Name    string
	Cols    []int
	Unique  bool
	Primary bool
	Prefix  []int // per column prefix length (0 = whole)
}

// CheckDef is a CHECK constraint over the fragment: col op const | colA < colB.
type CheckDef struct {
	Name   string
	A      int
	Op     string // "<", "<>", ">="
	B      int    // column index when BIsCol
	BIsCol bool
	C      int64
	// NotEnforced: declared NOT ENFORCED; rows need not satisfy it
	NotEnforced bool
}

// TableDef is a table of the fragment.
type TableDef struct {
	Name   string
	Cols   []Col
	Keys   []Key // Keys[0] is the primary key when HasPK
	HasPK  bool
	Checks []CheckDef
}

// PK returns the primary key or nil.
func (t *TableDef) PK() *Key {
	if t.HasPK {
		return &t.Keys[0]
	}
	return nil
}

// ColIdx finds a column by name.
func (t *TableDef) ColIdx(name string) int {
	for i, c := range t.Cols {
		if c.Name == name {
			return i
		}
	}
	return -1
}

// ColNames lists the column names.
func (t *TableDef) ColNames() []string {
	out := make([]string, len(t.Cols))
	for i, c := range t.Cols {
		out[i] = c.Name
	}
	return out
}

// InsertableCols lists indexes of non-generated columns.
func (t *TableDef) InsertableCols() []int {
	var out []int
	for i, c := range t.Cols {
		if c.GenFrom < 0 {
			out = append(out, i)
		}
	}
	return out
}

func intCol(name, typ string) Col {
	c := Col{Name: name, Kind: KInt, SQLType: typ, GenFrom: -1, Nullable: true}
	switch typ {
	case "TINYINT":
		c.Min, c.Max = -128, 127
	case "TINYINT UNSIGNED":
		c.Min, c.Max = 0, 255
	case "INT":
		c.Min, c.Max = -2147483648, 2147483647
	case "INT UNSIGNED":
		c.Min, c.Max = 0, 4294967295
	case "BIGINT":
		c.Min, c.Max = -9223372036854775808, 9223372036854775807
	}
	return c
}

func strCol(name string, n int, ci bool) Col {
	return Col{Name: name, Kind: KStr, SQLType: fmt.Sprintf("VARCHAR(%d)", n), Len: n, CI: ci, GenFrom: -1, Nullable: true}
}

// DDL renders CREATE TABLE.
func (t *TableDef) DDL() string {
	var parts []string
	for _, c := range t.Cols {
		s := "`" + c.Name + "` " + c.SQLType
		if c.Kind == KStr && c.CI {
			s += " COLLATE utf8mb4_0900_ai_ci"
		}
		if c.GenFrom >= 0 {
			s += fmt.Sprintf(" AS (`%s` + 1)", t.Cols[c.GenFrom].Name)
			if c.Stored {
				s += " STORED"
			} else {
				s += " VIRTUAL"
			}
		} else {
			if !c.Nullable {
				s += " NOT NULL"
			}
			if c.HasDef {
				s += " DEFAULT " + Lit(c.Default)
			}
			if c.AutoInc {
				s += " AUTO_INCREMENT"
			}
		}
		parts = append(parts, s)
	}
	for _, k := range t.Keys {
		var cols []string
		for i, ci := range k.Cols {
			s := "`" + t.Cols[ci].Name + "`"
			if k.Prefix != nil && k.Prefix[i] > 0 {
				s += "(" + strconv.Itoa(k.Prefix[i]) + ")"
			}
			cols = append(cols, s)
		}
		switch {
		case k.Primary:
			parts = append(parts, "PRIMARY KEY ("+strings.Join(cols, ",")+")")
		case k.Unique:
			parts = append(parts, "UNIQUE KEY `"+k.Name+"` ("+strings.Join(cols, ",")+")")
		default:
			parts = append(parts, "KEY `"+k.Name+"` ("+strings.Join(cols, ",")+")")
		}
	}
	for _, c := range t.Checks {
		ne := ""
		if c.NotEnforced {
			ne = " NOT ENFORCED"
		}
		parts = append(parts, "CONSTRAINT `"+c.Name+"` CHECK ("+c.SQL(t)+")"+ne)
	}
	return "CREATE TABLE `" + t.Name + "` (" + strings.Join(parts, ", ") + ")"
}

// SQL renders the check predicate.
func (c CheckDef) SQL(t *TableDef) string {
	if c.BIsCol {
		return fmt.Sprintf("`%s` %s `%s`", t.Cols[c.A].Name, c.Op, t.Cols[c.B].Name)
	}
	return fmt.Sprintf("`%s` %s %d", t.Cols[c.A].Name, c.Op, c.C)
}

// Lit renders a value as an SQL literal.
func Lit(v Val) string {
	switch x := v.(type) {
	case nil:
		return "NULL"
	case int64:
		return strconv.FormatInt(x, 10)
	case int:
		return strconv.Itoa(x)
	case string:
		return "'" + strings.ReplaceAll(x, "'", "''") + "'"
	}
	return fmt.Sprint(v)
}

// strAlphabet: case folding is unarguable on it.
var strWords = []string{"a", "b", "c", "A", "B", "ab", "AB", "aB", "abc", "ABC", "1", "12", "23", "3", "123", "b2", "B2", "ca", "cb", "",
	// accented twins of "a" and "ca": equal to them under utf8mb4_0900_ai_ci, one byte longer
	"á", "cá"}

// GenVal draws a value for column c; small domain so that collisions happen.
func GenVal(T *kernel.Tape, c *Col, allowNull bool) Val {
	if allowNull && c.Nullable && T.Bool(1, 8) {
		return nil
	}
	if c.Kind == KInt {
		if T.Bool(1, 16) {
			return []int64{c.Min, c.Max, 0}[T.Draw(3)]
		}
		lo := int64(0)
		if c.Min < 0 && T.Bool(1, 6) {
			lo = -6
		}
		return lo + int64(T.Draw(12))
	}
	for {
		w := strWords[T.Draw(len(strWords))]
		if len([]rune(w)) <= c.Len {
			return w
		}
	}
}

// SchemaOpts selects the features a generated table may have.
type SchemaOpts struct {
	Keyless    bool // allow a table without primary key
	Composite  bool // allow composite primary keys
	CI         bool // allow _ai_ci string columns in keys
	PrefixKeys bool
	Checks     bool
	Defaults   bool
	Generated  bool
	AutoInc    bool
	NotNull    bool
	StrPK      bool
	NoVirtual  bool // generated columns are STORED only
}

// GenTable draws a table definition.
func GenTable(T *kernel.Tape, name string, o SchemaOpts) *TableDef {
	t := &TableDef{Name: name}
	intTypes := []string{"INT", "TINYINT", "BIGINT", "INT UNSIGNED", "TINYINT UNSIGNED"}
	// key columns first
	pkKind := 0 // single int
	if o.Keyless && T.Bool(1, 5) {
		pkKind = 3
	} else if o.Composite && T.Bool(1, 3) {
		pkKind = 1
	} else if o.StrPK && T.Bool(1, 4) {
		pkKind = 2
	}
	switch pkKind {
	case 0:
		c := intCol("id", intTypes[T.Pick(4, 1, 1, 1, 1)])
		c.Nullable = false
		if o.AutoInc && T.Bool(1, 2) {
			c.AutoInc = true
		}
		t.Cols = append(t.Cols, c)
		t.Keys = append(t.Keys, Key{Name: "PRIMARY", Cols: []int{0}, Unique: true, Primary: true})
		t.HasPK = true
	case 1:
		var a, b Col
		if o.StrPK && T.Bool(1, 2) {
			a, b = strCol("k1", 4, o.CI && T.Bool(1, 3)), strCol("k2", 4, false)
		} else {
			a, b = intCol("k1", "INT"), intCol("k2", "TINYINT")
		}
		a.Nullable, b.Nullable = false, false
		t.Cols = append(t.Cols, a, b)
		t.Keys = append(t.Keys, Key{Name: "PRIMARY", Cols: []int{0, 1}, Unique: true, Primary: true})
		t.HasPK = true
	case 2:
		c := strCol("id", 4, o.CI && T.Bool(1, 2))
		c.Nullable = false
		t.Cols = append(t.Cols, c)
		t.Keys = append(t.Keys, Key{Name: "PRIMARY", Cols: []int{0}, Unique: true, Primary: true})
		t.HasPK = true
	case 3:
		t.Cols = append(t.Cols, intCol("id", "INT"))
	}
	// payload columns
	n := T.Range(2, 4)
	for i := 0; i < n; i++ {
		name := string(rune('a' + i))
		var c Col
		if T.Bool(1, 3) {
			c = strCol(name, []int{4, 8, 3}[T.Draw(3)], o.CI && T.Bool(1, 3))
		} else {
			c = intCol(name, intTypes[T.Pick(5, 2, 1, 1, 1)])
		}
		if o.NotNull && T.Bool(1, 4) {
			c.Nullable = false
		}
		if o.Defaults && T.Bool(1, 3) {
			c.HasDef = true
			c.Default = GenVal(T, &c, false)
		}
		t.Cols = append(t.Cols, c)
	}
	first := len(t.Cols) - n
	// secondary / unique keys on payload columns
	nk := T.Range(0, 2)
	for i := 0; i < nk; i++ {
		ci := first + T.Draw(n)
		k := Key{Name: fmt.Sprintf("k%d", i), Cols: []int{ci}, Unique: T.Bool(1, 2)}
		if T.Bool(1, 4) && n > 1 {
			c2 := first + T.Draw(n)
			if c2 != ci {
				k.Cols = append(k.Cols, c2)
			}
		}
		if o.PrefixKeys && t.Cols[ci].Kind == KStr && len(k.Cols) == 1 && T.Bool(1, 3) {
			k.Prefix = []int{2}
		}
		t.Keys = append(t.Keys, k)
	}
	if o.Checks && T.Bool(1, 2) {
		// over int payload columns only
		var ints []int
		for i := first; i < len(t.Cols); i++ {
			if t.Cols[i].Kind == KInt {
				ints = append(ints, i)
			}
		}
		if len(ints) > 0 {
			a := ints[T.Draw(len(ints))]
			ck := CheckDef{Name: "ck1", A: a, Op: []string{"<", "<>", ">="}[T.Draw(3)], C: []int64{9, 5, 0}[T.Draw(3)]}
			if len(ints) > 1 && T.Bool(1, 3) {
				b := ints[T.Draw(len(ints))]
				if b != a {
					ck.BIsCol, ck.B, ck.Op = true, b, []string{"<", "<>"}[T.Draw(2)]
				}
			}
			if T.Bool(1, 3) {
				// a check that is declared but not enforced, ahead of the enforced one: most rows violate it
				t.Checks = append(t.Checks, CheckDef{Name: "ck0", A: ints[T.Draw(len(ints))], Op: "<", C: -1000000, NotEnforced: true})
			}
			t.Checks = append(t.Checks, ck)
		}
	}
	if o.Generated && T.Bool(1, 3) {
		for i := first; i < len(t.Cols); i++ {
			if t.Cols[i].Kind == KInt && strings.HasPrefix(t.Cols[i].SQLType, "INT") {
				g := intCol("g", "BIGINT")
				g.GenFrom = i
				g.Stored = T.Bool(1, 2) || o.NoVirtual
				t.Cols = append(t.Cols, g)
				break
			}
		}
	}
	return t
}

package sqlsim

import (
	"fmt"
	"sort"
	"strings"

	"github.com/dolthub/go-mysql-server/memory"
	"github.com/dolthub/go-mysql-server/sql"
	"github.com/dolthub/go-mysql-server/sql/mysql_db"

	"verif/sim/kernel"
)

// C43: information_schema and SHOW reflect the catalog. A history of DDL by two
// sessions over tables, columns, indexes, foreign keys, CHECK constraints,
// views, triggers and procedures, with DDL that must fail (existing / missing
// objects, a table still referenced by a foreign key) and storage errors
// injected into the table-rewriting ALTERs. After every statement both sessions
// read the information_schema tables and the SHOW statements; each must list
// exactly the objects of a catalog model, with their current definitions as far
// as the model carries them (names, owning table, column order, uniqueness,
// referenced table, trigger timing and event, object type).

type cTable struct {
	cols   []string
	idx    map[string]*cIdx // secondary indexes by name
	fks    map[string]*cFK
	checks map[string]bool
	rows   int
	auto   int // next AUTO_INCREMENT value; 0 = the table has no such column
	moved  bool // a column was inserted before others or dropped (positions shifted)
	nopk   bool // created without a primary key
}

type cIdx struct {
	col    string
	unique bool
}

type cFK struct{ col, parent string }

type cTrig struct{ table, time, event string }

type cCatalog struct {
	tables map[string]*cTable
	views  map[string]string // name -> table selected from
	trigs  map[string]*cTrig
	procs  map[string]string // name -> "is_deterministic|sql_data_access|security_type"
}

func (c *cCatalog) clone() *cCatalog {
	n := &cCatalog{tables: map[string]*cTable{}, views: map[string]string{}, trigs: map[string]*cTrig{}, procs: map[string]string{}}
	for k, t := range c.tables {
		nt := &cTable{rows: t.rows, auto: t.auto, moved: t.moved, nopk: t.nopk, cols: append([]string(nil), t.cols...), idx: map[string]*cIdx{}, fks: map[string]*cFK{}, checks: map[string]bool{}}
		for a, b := range t.idx {
			x := *b
			nt.idx[a] = &x
		}
		for a, b := range t.fks {
			x := *b
			nt.fks[a] = &x
		}
		for a := range t.checks {
			nt.checks[a] = true
		}
		n.tables[k] = nt
	}
	for k, v := range c.views {
		n.views[k] = v
	}
	for k, v := range c.trigs {
		x := *v
		n.trigs[k] = &x
	}
	for k, v := range c.procs {
		n.procs[k] = v
	}
	return n
}

func sortedKeys[V any](m map[string]V) []string {
	out := make([]string, 0, len(m))
	for k := range m {
		out = append(out, k)
	}
	sort.Strings(out)
	return out
}

type cProbe struct {
	name    string
	q       string
	want    []string
	ordered bool
}

// probes lists what every catalog reader must return for the model.
func (c *cCatalog) probes() []cProbe {
	var ps []cProbe
	add := func(name, q string, want []string, ordered bool) {
		if !ordered {
			sort.Strings(want)
		}
		ps = append(ps, cProbe{name, q, want, ordered})
	}
	var tables, views, showTables, fullTables []string
	for _, t := range sortedKeys(c.tables) {
		tables = append(tables, "("+qs(t)+",'BASE TABLE')")
		showTables = append(showTables, "("+qs(t)+")")
		fullTables = append(fullTables, "("+qs(t)+",'BASE TABLE')")
	}
	for _, v := range sortedKeys(c.views) {
		tables = append(tables, "("+qs(v)+",'VIEW')")
		views = append(views, "("+qs(v)+")")
		showTables = append(showTables, "("+qs(v)+")")
		fullTables = append(fullTables, "("+qs(v)+",'VIEW')")
	}
	add("is.tables", "SELECT table_name, CONCAT(table_type, '') FROM information_schema.tables WHERE table_schema = 'd'", tables, false)
	add("is.views", "SELECT table_name FROM information_schema.views WHERE table_schema = 'd'", views, false)
	// the AUTO_INCREMENT column: the table's own counter, NULL for a table without one
	// (a counter still at 1 may be shown as 1 or as NULL)
	var autos []string
	for _, t := range sortedKeys(c.tables) {
		v := "NULL"
		if a := c.tables[t].auto; a > 1 {
			v = fmt.Sprint(a)
		}
		autos = append(autos, "("+qs(t)+","+v+")")
	}
	add("is.tables.auto_increment", "SELECT table_name, IF(auto_increment = 1, NULL, auto_increment) FROM information_schema.tables WHERE table_schema = 'd' AND table_type = 'BASE TABLE'", autos, false)
	add("show tables", "SHOW TABLES", showTables, false)
	add("show full tables", "SHOW FULL TABLES", fullTables, false)
	var cols, stats, tcons, rcons, ccons, kcu []string
	for _, tn := range sortedKeys(c.tables) {
		t := c.tables[tn]
		var showCols, showIdx []string
		for i, col := range t.cols {
			cols = append(cols, fmt.Sprintf("(%s,%s,%d)", qs(tn), qs(col), i+1))
			showCols = append(showCols, "("+qs(col)+")")
		}
		if !c.tables[tn].nopk {
			stats = append(stats, fmt.Sprintf("(%s,'PRIMARY','id',0)", qs(tn)))
			showIdx = append(showIdx, "('PRIMARY','id')")
			tcons = append(tcons, fmt.Sprintf("(%s,'PRIMARY','PRIMARY KEY')", qs(tn)))
			kcu = append(kcu, fmt.Sprintf("('PRIMARY',%s,'id',NULL)", qs(tn)))
		}
		for _, in := range sortedKeys(t.idx) {
			ix := t.idx[in]
			nu := 1
			if ix.unique {
				nu = 0
				tcons = append(tcons, fmt.Sprintf("(%s,%s,'UNIQUE')", qs(tn), qs(in)))
				kcu = append(kcu, fmt.Sprintf("(%s,%s,%s,NULL)", qs(in), qs(tn), qs(ix.col)))
			}
			stats = append(stats, fmt.Sprintf("(%s,%s,%s,%d)", qs(tn), qs(in), qs(ix.col), nu))
			showIdx = append(showIdx, fmt.Sprintf("(%s,%s)", qs(in), qs(ix.col)))
		}
		for _, fn := range sortedKeys(t.fks) {
			fk := t.fks[fn]
			tcons = append(tcons, fmt.Sprintf("(%s,%s,'FOREIGN KEY')", qs(tn), qs(fn)))
			rcons = append(rcons, fmt.Sprintf("(%s,%s,%s)", qs(fn), qs(tn), qs(fk.parent)))
			kcu = append(kcu, fmt.Sprintf("(%s,%s,%s,%s)", qs(fn), qs(tn), qs(fk.col), qs(fk.parent)))
		}
		for _, cn := range sortedKeys(t.checks) {
			tcons = append(tcons, fmt.Sprintf("(%s,%s,'CHECK')", qs(tn), qs(cn)))
			ccons = append(ccons, "("+qs(cn)+")")
		}
		add("show columns "+tn, "SHOW COLUMNS FROM "+tn, showCols, true)
		add("show index "+tn, "SHOW INDEX FROM "+tn, showIdx, false)
	}
	add("is.columns", "SELECT table_name, column_name, ordinal_position FROM information_schema.columns WHERE table_schema = 'd' AND table_name IN (SELECT table_name FROM information_schema.tables WHERE table_schema = 'd' AND table_type = 'BASE TABLE')", cols, false)
	add("is.statistics", "SELECT table_name, index_name, column_name, non_unique FROM information_schema.statistics WHERE table_schema = 'd'", stats, false)
	add("is.table_constraints", "SELECT table_name, constraint_name, CONCAT(constraint_type, '') FROM information_schema.table_constraints WHERE table_schema = 'd'", tcons, false)
	add("is.referential_constraints", "SELECT constraint_name, table_name, referenced_table_name FROM information_schema.referential_constraints WHERE constraint_schema = 'd'", rcons, false)
	add("is.check_constraints", "SELECT constraint_name FROM information_schema.check_constraints WHERE constraint_schema = 'd'", ccons, false)
	add("is.key_column_usage", "SELECT constraint_name, table_name, column_name, referenced_table_name FROM information_schema.key_column_usage WHERE table_schema = 'd'", kcu, false)
	var trigs, showTrigs, routines []string
	for _, tn := range sortedKeys(c.trigs) {
		tr := c.trigs[tn]
		trigs = append(trigs, fmt.Sprintf("(%s,%s,%s,%s)", qs(tn), qs(tr.event), qs(tr.table), qs(tr.time)))
		showTrigs = append(showTrigs, fmt.Sprintf("(%s,%s,%s,%s)", qs(tn), qs(tr.event), qs(tr.table), qs(tr.time)))
	}
	add("is.triggers.other-databases", "SELECT trigger_schema, trigger_name, event_object_table FROM information_schema.triggers WHERE trigger_schema IN ('c0', 'd2')", []string{"('c0','xtr','x')", "('d2','ytr','y')"}, false)
	add("is.tables.other-databases", "SELECT table_schema, table_name FROM information_schema.tables WHERE table_schema IN ('c0', 'd2')", []string{"('c0','x')", "('c0','xv')", "('d2','y')", "('d2','yv')"}, false)
	add("is.views.other-databases", "SELECT table_schema, table_name FROM information_schema.views WHERE table_schema IN ('c0', 'd2')", []string{"('c0','xv')", "('d2','yv')"}, false)
	add("is.triggers", "SELECT trigger_name, CONCAT(event_manipulation, ''), event_object_table, CONCAT(action_timing, '') FROM information_schema.triggers WHERE trigger_schema = 'd'", trigs, false)
	add("show triggers", "SHOW TRIGGERS", showTrigs, false)
	for _, p := range sortedKeys(c.procs) {
		ch := strings.Split(c.procs[p], "|")
		routines = append(routines, fmt.Sprintf("(%s,'PROCEDURE',%s,%s,%s)", qs(p), qs(ch[0]), qs(ch[1]), qs(ch[2])))
	}
	add("is.routines", "SELECT routine_name, CONCAT(routine_type, ''), CONCAT(is_deterministic, ''), CONCAT(sql_data_access, ''), CONCAT(security_type, '') FROM information_schema.routines WHERE routine_schema = 'd'", routines, false)
	return ps
}

func qs(s string) string { return "'" + s + "'" }

// project picks the columns of a SHOW result by header name.
func c43Run(s *Sess, p cProbe) (string, error) {
	r := s.Exec(p.q)
	if r.Err != nil {
		return "", r.Err
	}
	rows := r.Rows
	pick := func(names ...string) {
		var idx []int
		for _, n := range names {
			for i, c := range r.Schema {
				if strings.EqualFold(c.Name, n) {
					idx = append(idx, i)
					break
				}
			}
		}
		for i, row := range rows {
			nr := make([]any, 0, len(idx))
			for _, j := range idx {
				nr = append(nr, row[j])
			}
			rows[i] = nr
		}
	}
	switch {
	case strings.HasPrefix(p.q, "SHOW COLUMNS"):
		pick("Field")
	case strings.HasPrefix(p.q, "SHOW INDEX"):
		pick("Key_name", "Column_name")
	case strings.HasPrefix(p.q, "SHOW TRIGGERS"):
		pick("Trigger", "Event", "Table", "Timing")
	}
	return strings.Join(FormatRows(rows, p.ordered), " "), nil
}

func checkC43(env *kernel.Env) {
	T := env.T
	w := NewWorld(env)
	defer w.Close()
	// as a server with accounts runs it: root@localhost exists and both sessions
	// are root's (with no account at all privileges are off and
	// information_schema.routines / parameters, which filter on the session's
	// cached privilege set, list nothing)
	mdb := w.Eng.Analyzer.Catalog.MySQLDb
	mdb.SetPersister(&mysql_db.NoopPersister{})
	mdb.AddRootAccount()
	rootSess := func() *Sess {
		w.nextID++
		bs := sql.NewBaseSessionWithClientServer("sim:3306", sql.Client{Address: "localhost", User: "root"}, w.nextID)
		ms := memory.NewSession(bs, w.Pro)
		ms.SetCurrentDatabase("d")
		return &Sess{W: w, ID: w.nextID, S: ms, Name: fmt.Sprintf("s%d", w.nextID)}
	}
	sessions := []*Sess{rootSess(), rootSess()}
	// two further databases (one sorting before d, one after), each with a table, a trigger and a
	// view of its own: what they hold is listed under their own schema only
	for _, q := range []string{
		"CREATE DATABASE c0", "CREATE TABLE c0.x (id INT PRIMARY KEY)", "CREATE TRIGGER c0.xtr BEFORE INSERT ON c0.x FOR EACH ROW SET NEW.id = NEW.id", "CREATE VIEW c0.xv AS SELECT id FROM c0.x",
		"CREATE DATABASE d2", "CREATE TABLE d2.y (id INT PRIMARY KEY)", "CREATE TRIGGER d2.ytr AFTER DELETE ON d2.y FOR EACH ROW SET @x = 1", "CREATE VIEW d2.yv AS SELECT id FROM d2.y",
	} {
		sessions[0].MustExec(q)
	}
	cat := &cCatalog{tables: map[string]*cTable{}, views: map[string]string{}, trigs: map[string]*cTrig{}, procs: map[string]string{}}
	n := 0
	fresh := func(prefix string) string { n++; return fmt.Sprintf("%s%d", prefix, n) }
	pickKey := func(keys []string) string { return keys[T.Draw(len(keys))] }
	type op struct {
		kind, sql string
		apply     func(c *cCatalog) bool // false: the statement must fail
	}
	referenced := func(c *cCatalog, tn string) bool {
		for on, t := range c.tables {
			if on == tn {
				continue
			}
			for _, fk := range t.fks {
				if fk.parent == tn {
					return true
				}
			}
		}
		return false
	}
	genOp := func() *op {
		tabs := sortedKeys(cat.tables)
		for {
			switch T.Pick(4, 2, 1, 3, 2, 3, 2, 2, 1, 2, 1, 2, 1, 2, 1, 2, 1, 2) {
			case 0: // CREATE TABLE (sometimes an existing name: must fail)
				name := fresh("t")
				if len(tabs) > 0 && T.Bool(1, 8) {
					name = pickKey(tabs)
				}
				t := &cTable{cols: []string{"id", "a", "b"}, idx: map[string]*cIdx{}, fks: map[string]*cFK{}, checks: map[string]bool{}}
				defs := []string{"id INT PRIMARY KEY", "a INT", "b VARCHAR(10)"}
				topt := ""
				if T.Bool(1, 5) {
					// no primary key, two NOT NULL unique columns: the first is shown as the key
					u1, u2 := fresh("ua"), fresh("ub") // (names in column order: see the known finding show-columns-key-by-index-name)
					defs = []string{"id INT NOT NULL", "a INT NOT NULL", "b VARCHAR(10)", fmt.Sprintf("UNIQUE KEY %s (id)", u1), fmt.Sprintf("UNIQUE KEY %s (a)", u2)}
					t.idx = map[string]*cIdx{u1: {"id", true}, u2: {"a", true}}
					t.nopk = true
					t.checks = map[string]bool{}
				} else if T.Bool(1, 3) {
					defs[0] = "id INT PRIMARY KEY AUTO_INCREMENT"
					t.auto = 1
					if T.Bool(1, 2) {
						t.auto = []int{5, 10, 40}[T.Draw(3)]
						topt = fmt.Sprintf(" AUTO_INCREMENT = %d", t.auto)
					}
				}
				if T.Bool(1, 3) {
					in := fresh("uk")
					t.idx[in] = &cIdx{"a", true}
					defs = append(defs, fmt.Sprintf("UNIQUE KEY %s (a)", in))
				}
				if T.Bool(1, 3) {
					in := fresh("k")
					t.idx[in] = &cIdx{"b", false}
					defs = append(defs, fmt.Sprintf("KEY %s (b)", in))
				}
				if T.Bool(1, 3) {
					cn := fresh("ck")
					t.checks[cn] = true
					defs = append(defs, fmt.Sprintf("CONSTRAINT %s CHECK (a > -100)", cn))
				}
				return &op{"create-table", fmt.Sprintf("CREATE TABLE %s (%s)%s", name, strings.Join(defs, ", "), topt), func(c *cCatalog) bool {
					if _, ok := c.tables[name]; ok {
						return false
					}
					if _, ok := c.views[name]; ok {
						return false
					}
					c.tables[name] = t
					return true
				}}
			case 1: // DROP TABLE (a missing one or one still referenced must fail)
				name := "nosuch"
				if len(tabs) > 0 && T.Bool(7, 8) {
					name = pickKey(tabs)
				}
				if hasView(cat, name) && env.Avoid("broken-view-omitted") {
					continue
				}
				return &op{"drop-table", "DROP TABLE " + name, func(c *cCatalog) bool {
					if _, ok := c.tables[name]; !ok || referenced(c, name) {
						return false
					}
					delete(c.tables, name)
					for tn, tr := range c.trigs {
						if tr.table == name {
							delete(c.trigs, tn)
						}
					}
					return true
				}}
			case 2: // RENAME TABLE
				if len(tabs) == 0 {
					continue
				}
				from, to := pickKey(tabs), fresh("t")
				if referenced(cat, from) || len(cat.tables[from].fks) > 0 {
					continue // how foreign keys follow a rename is not modelled
				}
				for _, tr := range cat.trigs {
					if tr.table == from {
						from = ""
					}
				}
				if from == "" {
					continue // MySQL moves the triggers along; not modelled
				}
				if hasView(cat, from) && env.Avoid("broken-view-omitted") {
					continue
				}
				return &op{"rename-table", fmt.Sprintf("RENAME TABLE %s TO %s", from, to), func(c *cCatalog) bool {
					c.tables[to] = c.tables[from]
					delete(c.tables, from)
					return true
				}}
			case 3: // ADD COLUMN
				if len(tabs) == 0 {
					continue
				}
				tn, col := pickKey(tabs), fresh("c")
				pos, at := "", -1
				if T.Bool(1, 3) {
					pos, at = " FIRST", 0
				} else if T.Bool(1, 2) {
					after := cat.tables[tn].cols[T.Draw(len(cat.tables[tn].cols))]
					pos = " AFTER " + after
					for i, c := range cat.tables[tn].cols {
						if c == after {
							at = i + 1
						}
					}
				}
				if len(cat.tables[tn].idx) > 0 && pos != "" && env.Avoid("schema-change-with-secondary-index") {
					pos, at = "", -1
				}
				return &op{"add-column", fmt.Sprintf("ALTER TABLE %s ADD COLUMN %s INT%s", tn, col, pos), func(c *cCatalog) bool {
					t := c.tables[tn]
					if at < 0 {
						t.cols = append(t.cols, col)
					} else {
						t.cols = append(t.cols[:at], append([]string{col}, t.cols[at:]...)...)
						t.moved = true
					}
					return true
				}}
			case 4: // DROP COLUMN (a plain one)
				if len(tabs) == 0 {
					continue
				}
				tn := pickKey(tabs)
				t := cat.tables[tn]
				var plain []string
				for _, c := range t.cols {
					if strings.HasPrefix(c, "c") {
						plain = append(plain, c)
					}
				}
				if len(plain) == 0 || (len(t.idx) > 0 && env.Avoid("schema-change-with-secondary-index")) {
					continue
				}
				col := pickKey(plain)
				return &op{"drop-column", fmt.Sprintf("ALTER TABLE %s DROP COLUMN %s", tn, col), func(c *cCatalog) bool {
					t := c.tables[tn]
					for i, x := range t.cols {
						if x == col {
							t.cols = append(t.cols[:i], t.cols[i+1:]...)
							t.moved = true
							break
						}
					}
					return true
				}}
			case 5: // ADD [UNIQUE] INDEX (an existing name must fail)
				if len(tabs) == 0 {
					continue
				}
				tn := pickKey(tabs)
				in := fresh("ix")
				if len(cat.tables[tn].idx) > 0 && T.Bool(1, 6) {
					in = pickKey(sortedKeys(cat.tables[tn].idx))
				}
				col := []string{"a", "b"}[T.Draw(2)]
				unique := T.Bool(1, 3)
				if unique && cat.tables[tn].nopk {
					// known finding (show-columns-key-by-index-name): a unique index named ix..
					// sorts before the table's uk.. indexes
					if env.Avoid("show-columns-key-by-index-name") {
						continue
					}
					env.ClassPrefix = "unique-index-order/"
				}
				u := ""
				if unique {
					u = "UNIQUE "
				}
				return &op{"add-index", fmt.Sprintf("ALTER TABLE %s ADD %sINDEX %s (%s)", tn, u, in, col), func(c *cCatalog) bool {
					if _, ok := c.tables[tn].idx[in]; ok {
						return false
					}
					c.tables[tn].idx[in] = &cIdx{col, unique}
					return true
				}}
			case 6: // DROP INDEX
				if len(tabs) == 0 {
					continue
				}
				tn := pickKey(tabs)
				if len(cat.tables[tn].idx) == 0 {
					continue
				}
				in := pickKey(sortedKeys(cat.tables[tn].idx))
				// an index a foreign key of this table relies on is not dropped
				used := false
				for _, fk := range cat.tables[tn].fks {
					if fk.col == cat.tables[tn].idx[in].col {
						used = true
					}
				}
				if used {
					continue
				}
				return &op{"drop-index", fmt.Sprintf("ALTER TABLE %s DROP INDEX %s", tn, in), func(c *cCatalog) bool {
					delete(c.tables[tn].idx, in)
					return true
				}}
			case 7: // ADD FOREIGN KEY (child column a, which must carry an index, -> parent id)
				if len(tabs) < 2 {
					continue
				}
				tn, pn := pickKey(tabs), pickKey(tabs)
				if tn == pn || cat.tables[pn].nopk {
					continue // (a parent without primary key is referenced through a unique index the model does not track as used)
				}
				hasIdx := false
				for _, ix := range cat.tables[tn].idx {
					if ix.col == "a" {
						hasIdx = true
					}
				}
				if !hasIdx || cat.tables[tn].rows > 0 {
					continue // (rows of the child would have to match parent rows)
				}
				if cat.tables[tn].moved || (cat.tables[pn].moved && len(cat.tables[pn].idx) > 0) {
					continue // (indexes after columns changed position: C21's known finding)
				}
				fn := fresh("fk")
				return &op{"add-foreign-key", fmt.Sprintf("ALTER TABLE %s ADD CONSTRAINT %s FOREIGN KEY (a) REFERENCES %s (id)", tn, fn, pn), func(c *cCatalog) bool {
					c.tables[tn].fks[fn] = &cFK{"a", pn}
					return true
				}}
			case 8: // DROP FOREIGN KEY
				var have [][2]string
				for _, tn := range tabs {
					for _, fn := range sortedKeys(cat.tables[tn].fks) {
						have = append(have, [2]string{tn, fn})
					}
				}
				if len(have) == 0 {
					continue
				}
				x := have[T.Draw(len(have))]
				return &op{"drop-foreign-key", fmt.Sprintf("ALTER TABLE %s DROP FOREIGN KEY %s", x[0], x[1]), func(c *cCatalog) bool {
					delete(c.tables[x[0]].fks, x[1])
					return true
				}}
			case 9: // ADD CHECK
				if len(tabs) == 0 {
					continue
				}
				tn, cn := pickKey(tabs), fresh("ck")
				return &op{"add-check", fmt.Sprintf("ALTER TABLE %s ADD CONSTRAINT %s CHECK (a < 100000)", tn, cn), func(c *cCatalog) bool {
					c.tables[tn].checks[cn] = true
					return true
				}}
			case 10: // DROP CHECK
				var have [][2]string
				for _, tn := range tabs {
					for _, cn := range sortedKeys(cat.tables[tn].checks) {
						have = append(have, [2]string{tn, cn})
					}
				}
				if len(have) == 0 {
					continue
				}
				x := have[T.Draw(len(have))]
				return &op{"drop-check", fmt.Sprintf("ALTER TABLE %s DROP CHECK %s", x[0], x[1]), func(c *cCatalog) bool {
					delete(c.tables[x[0]].checks, x[1])
					return true
				}}
			case 11: // CREATE VIEW
				if len(tabs) == 0 {
					continue
				}
				tn, vn := pickKey(tabs), fresh("v")
				if len(cat.views) > 0 && T.Bool(1, 8) {
					vn = pickKey(sortedKeys(cat.views))
				}
				return &op{"create-view", fmt.Sprintf("CREATE VIEW %s AS SELECT id, a FROM %s", vn, tn), func(c *cCatalog) bool {
					if _, ok := c.views[vn]; ok {
						return false
					}
					c.views[vn] = tn
					return true
				}}
			case 12: // DROP VIEW
				if len(cat.views) == 0 {
					continue
				}
				vn := pickKey(sortedKeys(cat.views))
				return &op{"drop-view", "DROP VIEW " + vn, func(c *cCatalog) bool {
					delete(c.views, vn)
					return true
				}}
			case 13: // CREATE TRIGGER
				if len(tabs) == 0 {
					continue
				}
				tn, trn := pickKey(tabs), fresh("tr")
				tm := []string{"BEFORE", "AFTER"}[T.Draw(2)]
				ev := []string{"INSERT", "UPDATE", "DELETE"}[T.Draw(3)]
				body := "SET @x = 1"
				return &op{"create-trigger", fmt.Sprintf("CREATE TRIGGER %s %s %s ON %s FOR EACH ROW %s", trn, tm, ev, tn, body), func(c *cCatalog) bool {
					c.trigs[trn] = &cTrig{tn, tm, ev}
					return true
				}}
			case 14: // DROP TRIGGER
				if len(cat.trigs) == 0 {
					continue
				}
				trn := pickKey(sortedKeys(cat.trigs))
				return &op{"drop-trigger", "DROP TRIGGER " + trn, func(c *cCatalog) bool {
					delete(c.trigs, trn)
					return true
				}}
			case 15: // CREATE PROCEDURE
				pn := fresh("p")
				if len(cat.procs) > 0 && T.Bool(1, 8) {
					pn = pickKey(sortedKeys(cat.procs))
				}
				// characteristics (each optional; the defaults are NO / CONTAINS SQL / DEFINER)
				det, access, security, chars := "NO", "CONTAINS SQL", "DEFINER", ""
				if T.Bool(1, 3) {
					det, chars = "YES", chars+" DETERMINISTIC"
				}
				if T.Bool(1, 3) {
					access = []string{"NO SQL", "READS SQL DATA", "MODIFIES SQL DATA"}[T.Draw(3)]
					chars += " " + access
				}
				if T.Bool(1, 3) {
					security, chars = "INVOKER", chars+" SQL SECURITY INVOKER"
				}
				return &op{"create-procedure", fmt.Sprintf("CREATE PROCEDURE %s()%s SELECT 1", pn, chars), func(c *cCatalog) bool {
					if _, ok := c.procs[pn]; ok {
						return false
					}
					c.procs[pn] = det + "|" + access + "|" + security
					return true
				}}
			case 16: // DROP PROCEDURE
				if len(cat.procs) == 0 {
					continue
				}
				pn := pickKey(sortedKeys(cat.procs))
				return &op{"drop-procedure", "DROP PROCEDURE " + pn, func(c *cCatalog) bool {
					delete(c.procs, pn)
					return true
				}}
			default: // an insert, so that tables are not always empty when they are altered
				if len(tabs) == 0 {
					continue
				}
				tn := pickKey(tabs)
				if len(cat.tables[tn].fks) > 0 || len(cat.tables[tn].cols) != 3 {
					continue
				}
				if cat.tables[tn].moved && len(cat.tables[tn].idx) > 0 {
					// rows written through secondary indexes after columns changed position are
					// C21's subject (known finding schema-change-with-secondary-index)
					continue
				}
				n++
				return &op{"insert", fmt.Sprintf("INSERT INTO %s VALUES (%d, %d, 'r%d')", tn, n, n, n), func(c *cCatalog) bool {
					c.tables[tn].rows++
					if t := c.tables[tn]; t.auto > 0 && n >= t.auto {
						t.auto = n + 1
					}
					return true
				}}
			}
		}
	}
	verify := func(step int, after string) bool {
		for _, s := range sessions {
			for _, p := range cat.probes() {
				got, err := c43Run(s, p)
				if err != nil {
					env.Fail("catalog-readable", "catalog-read-failed:"+strings.Fields(p.name)[0], "step %d after %q: %s: %s failed: %v", step, after, s.Name, p.q, err)
					return false
				}
				want := strings.Join(p.want, " ")
				if got != want {
					kind := p.name
					if strings.HasPrefix(kind, "show ") {
						f := strings.Fields(kind)
						kind = strings.Join(f[:len(f)-1], "-")
						if len(f) == 2 {
							kind = strings.Join(f, "-")
						}
					}
					env.Fail("catalog-reflected", "differs:"+kind, "step %d after %q: %s reads %s\n  got:  %s\n  want: %s", step, after, s.Name, p.q, got, want)
					return false
				}
			}
			// the two readers of a table's column list agree on every column's key marker
			for _, tn := range sortedKeys(cat.tables) {
				if s != sessions[0] {
					break // (one reader is enough for this comparison; it is the costly one)
				}
				sc := s.Exec("SHOW COLUMNS FROM " + tn)
				ic := s.Exec(fmt.Sprintf("SELECT column_name, column_key FROM information_schema.columns WHERE table_schema = 'd' AND table_name = '%s' ORDER BY ordinal_position", tn))
				if sc.Err != nil || ic.Err != nil {
					env.Fail("catalog-readable", "catalog-read-failed:columns", "step %d after %q: SHOW COLUMNS FROM %s / information_schema.columns failed: %v %v", step, after, tn, sc.Err, ic.Err)
					return false
				}
				var a, b []string
				for _, r := range sc.Rows {
					a = append(a, fmt.Sprintf("%v:%v", r[0], r[3]))
				}
				for _, r := range ic.Rows {
					b = append(b, fmt.Sprintf("%v:%v", r[0], r[1]))
				}
				if strings.Join(a, " ") != strings.Join(b, " ") {
					env.Fail("catalog-reflected", "differs:column-key", "step %d after %q: %s: SHOW COLUMNS FROM %s gives [%s], information_schema.columns gives [%s]", step, after, s.Name, tn, strings.Join(a, " "), strings.Join(b, " "))
					return false
				}
			}
			// SHOW CREATE TABLE names every column, index and constraint of the model and nothing dropped
			for _, tn := range sortedKeys(cat.tables) {
				r := s.Exec("SHOW CREATE TABLE " + tn)
				if r.Err != nil || len(r.Rows) != 1 {
					env.Fail("catalog-readable", "catalog-read-failed:show-create-table", "step %d after %q: SHOW CREATE TABLE %s failed: %v", step, after, tn, r.Err)
					return false
				}
				text := fmt.Sprint(r.Rows[0][1])
				t := cat.tables[tn]
				var names []string
				names = append(names, t.cols...)
				names = append(names, sortedKeys(t.idx)...)
				names = append(names, sortedKeys(t.fks)...)
				names = append(names, sortedKeys(t.checks)...)
				for _, nm := range names {
					if !strings.Contains(text, "`"+nm+"`") {
						env.Fail("catalog-reflected", "differs:show-create-table", "step %d after %q: SHOW CREATE TABLE %s does not mention `%s`:\n%s", step, after, tn, nm, text)
						return false
					}
				}
				for i := 1; i <= n; i++ {
					for _, pre := range []string{"c", "ix", "uk", "k", "fk", "ck"} {
						nm := fmt.Sprintf("%s%d", pre, i)
						known := false
						for _, x := range names {
							if x == nm {
								known = true
							}
						}
						if !known && strings.Contains(text, "`"+nm+"`") {
							env.Fail("catalog-reflected", "differs:show-create-table", "step %d after %q: SHOW CREATE TABLE %s still mentions `%s`, which the table does not have:\n%s", step, after, tn, nm, text)
							return false
						}
					}
				}
			}
		}
		return true
	}
	steps := T.Range(4, 22)
	if env.Tier == "thorough" {
		steps = T.Range(4, 40)
	}
	faults := T.Bool(1, 2)
	for step := 0; step < steps && !env.Failed(); step++ {
		s := sessions[T.Draw(2)]
		o := genOp()
		next := cat.clone()
		ok := true
		if o.apply != nil {
			ok = o.apply(next)
		}
		armed := 0
		if faults && o.apply != nil && T.Bool(1, 4) {
			armed = T.Range(1, 3)
			w.Arm(armed, "")
		}
		r, pan := s.ExecRecover(o.sql)
		fired := w.Fired()
		w.ResetEditCount()
		if pan != "" {
			env.Fail("no-panic", "panic:"+pan, "%q panicked in %s", o.sql, pan)
			break
		}
		env.Logf("%s: %s -> %s  [model: ok=%v; fault fired: %v]", s.Name, o.sql, ErrClass(r.Err), ok, fired)
		env.Kind(fmt.Sprintf("%s:%v:%v", o.kind, r.Err == nil, fired))
		if fired {
			env.Fault("edit-error:" + o.kind)
		}
		switch {
		case r.Err != nil && ok && !fired && o.apply != nil:
			env.Fail("valid-ddl-succeeds", "valid-ddl-refused:"+o.kind, "%q failed: %v", o.sql, r.Err)
		case r.Err == nil && !ok:
			env.Fail("invalid-ddl-fails", "invalid-ddl-accepted:"+o.kind, "%q succeeded; the model says it must fail (object exists / is missing / is still referenced)", o.sql)
		case r.Err == nil && o.apply != nil:
			if (o.kind == "drop-table" || o.kind == "rename-table") && hasView(cat, strings.Fields(o.sql)[2]) {
				// known finding: a view whose table is gone is left out of information_schema.views
				env.ClassPrefix = "broken-view/"
			}
			cat = next
		case r.Err != nil && !ok:
			env.Fault("refused-ddl:" + o.kind)
		}
		if env.Failed() {
			break
		}
		if len(cat.tables) > 0 {
			env.Nontrivial()
		}
		if !verify(step, o.sql) {
			break
		}
	}
}

func hasView(c *cCatalog, table string) bool {
	for _, t := range c.views {
		if t == table {
			return true
		}
	}
	return false
}

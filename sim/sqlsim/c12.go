package sqlsim

import (
	"fmt"
	"strings"

	"github.com/dolthub/vitess/go/vt/sqlparser"

	"github.com/dolthub/go-mysql-server/sql"

	"verif/sim/kernel"
)

// C12: prepared statements behave like the inlined statement text. Two
// identical engines receive the same logical history. On E1 a parameterised
// statement goes through a prepared path - SQL PREPARE / EXECUTE ... USING @v,
// or the API (Engine.QueryWithBindings) - and its handle is re-executed with
// new values; on E2 the same statement has the values spliced in as literals
// by the harness's own quoting. Between executions an admin session applies
// the same DML / DDL (ALTER TABLE, DROP + CREATE, index changes) to both.
// Oracle: results, affected rows, error kind and the final table contents
// agree between E1 and E2 at every step.

type c12Param struct {
	lit  string // SQL literal text as written by the harness
	expr sqlparser.Expr
}

func c12Lit(v Val) c12Param {
	switch x := v.(type) {
	case nil:
		return c12Param{"NULL", &sqlparser.NullVal{}}
	case int64:
		s := fmt.Sprint(x)
		return c12Param{s, sqlparser.NewIntVal([]byte(s))}
	case float64:
		s := fmt.Sprintf("%.2f", x)
		return c12Param{s, sqlparser.NewFloatVal([]byte(s))}
	case string:
		q := strings.ReplaceAll(strings.ReplaceAll(x, `\`, `\\`), "'", "''")
		return c12Param{"'" + q + "'", sqlparser.NewStrVal([]byte(x))}
	}
	return c12Param{"NULL", &sqlparser.NullVal{}}
}

type c12Tmpl struct {
	name   string
	sql    string   // with ? placeholders
	kinds  []string // per parameter: int, str, any
	write  bool
}

var c12Templates = []c12Tmpl{
	{"sel-eq", "SELECT id, a, s FROM t WHERE a = ?", []string{"int"}, false},
	{"sel-range-str", "SELECT id, a, s FROM t WHERE a > ? AND s = ?", []string{"int", "str"}, false},
	{"sel-in", "SELECT id FROM t WHERE id IN (?, ?)", []string{"int", "int"}, false},
	{"sel-expr", "SELECT id, ? + a FROM t WHERE id < ?", []string{"int", "int"}, false},
	{"sel-between", "SELECT COUNT(*) FROM t WHERE a BETWEEN ? AND ?", []string{"int", "int"}, false},
	{"sel-param-only", "SELECT ?, ?", []string{"any", "any"}, false},
	{"sel-str-cmp", "SELECT id FROM t WHERE s >= ?", []string{"str"}, false},
	{"sel-null-safe", "SELECT id FROM t WHERE a <=> ?", []string{"any"}, false},
	{"sel-limit", "SELECT id FROM t ORDER BY id LIMIT ?", []string{"small"}, false},
	{"sel-limit-offset", "SELECT id FROM t ORDER BY id LIMIT ? OFFSET ?", []string{"small", "small"}, false},
	{"sel-limit-comma", "SELECT id, a FROM t ORDER BY id LIMIT ?, ?", []string{"small", "small"}, false},
	{"ins", "INSERT INTO t (id, a, s) VALUES (?, ?, ?)", []string{"int", "int", "str"}, true},
	// no column list / SELECT *: what the statement means follows the table's current columns
	{"ins-nocols", "INSERT INTO t VALUES (?, ?, ?)", []string{"int", "int", "str"}, true},
	{"rep-nocols", "REPLACE INTO t VALUES (?, ?, ?)", []string{"int", "int", "str"}, true},
	{"sel-star", "SELECT * FROM t WHERE id = ?", []string{"int"}, false},
	{"ins-sel-star", "INSERT INTO t SELECT * FROM t2 WHERE id = ?", []string{"int"}, true},
	{"upd", "UPDATE t SET a = ? WHERE id = ?", []string{"int", "int"}, true},
	{"upd-str", "UPDATE t SET s = ? WHERE a >= ?", []string{"str", "int"}, true},
	{"del", "DELETE FROM t WHERE a < ?", []string{"int"}, true},
}

var c12Strings = []string{"a", "it's", `back\slash`, "", "x y", "ABC", `q"uote`, "%_", "0", "12abc"}

func c12GenParam(T *kernel.Tape, kind string) Val {
	switch kind {
	case "small":
		return int64(T.Draw(6))
	case "int":
		if T.Bool(1, 10) {
			return nil
		}
		if T.Bool(1, 8) {
			return []int64{2147483647, -2147483648, 0, 9223372036854775807, -1, 255, 256, 65535}[T.Draw(8)]
		}
		return int64(T.Draw(12))
	case "str":
		if T.Bool(1, 10) {
			return nil
		}
		return c12Strings[T.Draw(len(c12Strings))]
	}
	switch T.Draw(4) {
	case 0:
		return nil
	case 1:
		return int64(T.Draw(1000)) - 500
	case 2:
		return float64(T.Draw(2000)-1000) / 4
	}
	return c12Strings[T.Draw(len(c12Strings))]
}

func checkC12(env *kernel.Env) {
	T := env.T
	w1 := NewWorld(env)
	w2 := NewWorld(env)
	defer func() { w2.Close(); w1.Close() }()
	s1, s2 := w1.NewSession(), w2.NewSession()
	admin1, admin2 := w1.NewSession(), w2.NewSession()
	both := func(q string) (string, string) {
		r1, r2 := admin1.Exec(q), admin2.Exec(q)
		return ErrClass(r1.Err), ErrClass(r2.Err)
	}
	ddl := "CREATE TABLE t (id INT PRIMARY KEY, a INT, s VARCHAR(12), KEY ka (a))"
	both(ddl)
	both("CREATE TABLE t2 (id INT PRIMARY KEY, a INT, s VARCHAR(12))")
	for i := 0; i < 6; i++ {
		both(fmt.Sprintf("INSERT INTO t2 VALUES (%d, %d, 'src%d')", 100+i, i, i))
	}
	for i, n := 0, T.Range(4, 12); i < n; i++ {
		both(fmt.Sprintf("INSERT INTO t VALUES (%d, %d, %s)", i, T.Draw(10), c12Lit(c12Strings[T.Draw(len(c12Strings))]).lit))
	}
	withTriggers := T.Bool(1, 2)
	if withTriggers {
		// the statements' side effects count too: triggers of t write an audit table
		both("CREATE TABLE au (what VARCHAR(8), n INT)")
		both("CREATE TRIGGER ti AFTER INSERT ON t FOR EACH ROW INSERT INTO au VALUES ('ins', NEW.id)")
		both("CREATE TRIGGER tu AFTER UPDATE ON t FOR EACH ROW INSERT INTO au VALUES ('upd', NEW.id)")
		both("CREATE TRIGGER td AFTER DELETE ON t FOR EACH ROW INSERT INTO au VALUES ('del', OLD.id)")
	}
	prepared := map[string]bool{} // SQL-level handles on s1
	render := func(r *Res) string {
		if r.Err != nil {
			return "ERROR " + ErrClass(r.Err)
		}
		if r.IsOk {
			return fmt.Sprintf("OK affected=%d", r.Affected)
		}
		return strings.Join(FormatRows(r.Rows, false), " ")
	}
	steps := T.Range(5, 30)
	for step := 0; step < steps && !env.Failed(); step++ {
		if T.Bool(1, 5) {
			// admin history applied to both engines
			q := []string{
				"ALTER TABLE t ADD COLUMN extra INT DEFAULT 7",
				"ALTER TABLE t DROP COLUMN extra",
				"DROP INDEX ka ON t",
				"CREATE INDEX ka ON t (a)",
				"DROP TABLE t",
				ddl,
				fmt.Sprintf("INSERT INTO t (id, a, s) VALUES (%d, %d, 'adm')", 20+T.Draw(10), T.Draw(10)),
				fmt.Sprintf("DELETE FROM t WHERE id = %d", T.Draw(12)),
				"ALTER TABLE t MODIFY COLUMN a BIGINT",
				"ALTER TABLE t MODIFY COLUMN a INT FIRST",
				"ALTER TABLE t MODIFY COLUMN a INT AFTER id",
				"ALTER TABLE t RENAME COLUMN s TO s2",
				"ALTER TABLE t RENAME COLUMN s2 TO s",
				"ALTER TABLE t MODIFY COLUMN s VARCHAR(12) FIRST",
				"ALTER TABLE t MODIFY COLUMN s VARCHAR(12) AFTER a",
			}[T.Draw(15)]
			c1, c2 := both(q)
			env.Kind("admin")
			env.Logf("admin: %s -> %s | %s", q, c1, c2)
			if c1 != c2 {
				env.Fail("twin-engines-agree", "admin-diverged", "admin statement %q: engine 1 says %s, engine 2 says %s", q, c1, c2)
			}
			if strings.HasPrefix(q, "DROP TABLE") || strings.HasPrefix(q, "ALTER") {
				env.Probe("schema-changed-under-handle")
			}
			continue
		}
		tm := c12Templates[T.Draw(len(c12Templates))]
		var params []c12Param
		for _, k := range tm.kinds {
			params = append(params, c12Lit(c12GenParam(T, k)))
		}
		// E2: literal text
		lit := tm.sql
		for _, p := range params {
			lit = strings.Replace(lit, "?", p.lit, 1)
		}
		r2 := s2.Exec(lit)
		// E1: a prepared path
		var r1 *Res
		path := "sql-prepare"
		if T.Bool(1, 2) {
			path = "api-bindings"
		}
		if path == "sql-prepare" {
			if !prepared[tm.name] {
				if r := s1.Exec(fmt.Sprintf("PREPARE %s FROM '%s'", strings.ReplaceAll(tm.name, "-", "_"), strings.ReplaceAll(tm.sql, "'", "''"))); r.Err != nil {
					// preparing may legitimately fail (e.g. the table is dropped right now): then the literal must fail too
					r1 = r
				} else {
					prepared[tm.name] = true
				}
			} else {
				env.Probe("handle-re-executed")
			}
			if r1 == nil {
				var using []string
				for i, p := range params {
					s1.MustExec(fmt.Sprintf("SET @p%d = %s", i, p.lit))
					using = append(using, fmt.Sprintf("@p%d", i))
				}
				r1 = s1.Exec(fmt.Sprintf("EXECUTE %s USING %s", strings.ReplaceAll(tm.name, "-", "_"), strings.Join(using, ", ")))
			}
		} else {
			bindings := map[string]sqlparser.Expr{}
			for i, p := range params {
				bindings[fmt.Sprintf("v%d", i+1)] = p.expr
			}
			r1 = s1.exec(tm.sql, func(ctx *sql.Context) (sql.Schema, sql.RowIter, error) {
				sch, it, _, err := w1.Eng.QueryWithBindings(ctx, tm.sql, nil, bindings, nil)
				return sch, it, err
			})
		}
		g1, g2 := render(r1), render(r2)
		env.Kind(tm.name + ":" + path)
		env.Logf("%s [%s]: %s -> prepared: %s | literal: %s", tm.name, path, lit, g1, g2)
		if g1 != g2 {
			cls := "result-differs"
			if (r1.Err != nil) != (r2.Err != nil) {
				cls = "error-presence-differs"
			}
			env.Fail("prepared-equals-literal", cls+":"+path+":"+tm.name, "%s via %s gives [%s]; the same statement with the values written as literals (%s) gives [%s]", tm.sql, path, g1, lit, g2)
			break
		}
		if tm.write {
			t1, t2 := render(admin1.Exec("SELECT * FROM t")), render(admin2.Exec("SELECT * FROM t"))
			if t1 != t2 {
				env.Fail("prepared-equals-literal", "effects-differ:"+path+":"+tm.name, "after %s via %s the table is [%s]; after the literal form it is [%s]", tm.sql, path, t1, t2)
			}
			if withTriggers && !env.Failed() {
				a1, a2 := render(admin1.Exec("SELECT what, n, COUNT(*) FROM au GROUP BY what, n ORDER BY what, n")), render(admin2.Exec("SELECT what, n, COUNT(*) FROM au GROUP BY what, n ORDER BY what, n"))
				if a1 != a2 {
					env.Fail("prepared-equals-literal", "trigger-effects-differ:"+path+":"+tm.name, "after %s via %s the triggers of t have written [%s]; after the literal form [%s]", tm.sql, path, a1, a2)
				}
			}
		}
		env.Nontrivial()
	}
}

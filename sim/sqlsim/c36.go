package sqlsim

import (
	"fmt"
	"os"
	"regexp"
	"sort"
	"strings"
	"sync"
	"syscall"

	"github.com/dolthub/go-mysql-server/sql"
	"github.com/dolthub/go-mysql-server/verifhook"

	"verif/sim/kernel"
)

// C36: concurrent read-only sessions. A fixed database; 2-8 sessions registered
// with the process list run read-only statements (scans, index lookups, joins,
// grouping, subqueries, views, information_schema, SHOW, system and user
// variables, session functions, SQL-level prepared statements).
//
// C36a (deterministic): the tape interleaves the sessions statement by
// statement on one goroutine. Every result must equal the result of the same
// statement run alone before, session state (user variables, CONNECTION_ID(),
// FOUND_ROWS(), prepared statements) must stay with its session, and at
// quiescence the process list shows every connection idle and Threads_running
// is back to its starting value.
//
// C36b (race detector; stated deviation from exact replay): the tape only
// decides the overlap groups - which sessions run which statements at the same
// time. The members of a group run on real goroutines in a -race build at
// GOMAXPROCS 4 (a cooperative scheduler's hand-offs would be happens-before
// edges and hide every race). A report of the race detector, a fatal
// "concurrent map" error, a panic, or a result differing from the run-alone
// result is a violation. Findings are identified by the pair of engine
// functions of the two racing accesses, never by count.

type c36Query struct {
	sql     string
	session bool // the result depends on the session (expected value computed per session)
}

var c36Pool = []c36Query{
	{sql: "SELECT id, a, b FROM t1 WHERE a < 20 ORDER BY id"},
	{sql: "SELECT COUNT(*), SUM(a), MIN(b), MAX(b) FROM t1"},
	{sql: "SELECT a, COUNT(*) FROM t1 GROUP BY a ORDER BY a"},
	{sql: "SELECT id FROM t1 WHERE a = 7 ORDER BY id"},
	{sql: "SELECT t1.id, t2.v FROM t1 JOIN t2 ON t2.t1id = t1.id WHERE t1.a < 5 ORDER BY t1.id, t2.id"},
	{sql: "SELECT t1.id, COUNT(t2.id) FROM t1 LEFT JOIN t2 ON t2.t1id = t1.id GROUP BY t1.id ORDER BY t1.id LIMIT 15"},
	{sql: "SELECT id FROM t1 WHERE id IN (SELECT t1id FROM t2 WHERE v > 50) ORDER BY id"},
	{sql: "SELECT id FROM t1 WHERE NOT EXISTS (SELECT 1 FROM t2 WHERE t2.t1id = t1.id) ORDER BY id"},
	{sql: "SELECT id, (SELECT MAX(v) FROM t2 WHERE t2.t1id = t1.id) FROM t1 WHERE id <= 10 ORDER BY id"},
	{sql: "SELECT * FROM v1 ORDER BY id LIMIT 10"},
	{sql: "SELECT b, COUNT(*) FROM v1 GROUP BY b ORDER BY b"},
	{sql: "SELECT DISTINCT a FROM t1 ORDER BY a DESC LIMIT 5"},
	{sql: "SELECT a FROM t1 WHERE a < 3 UNION SELECT v FROM t2 WHERE v < 3 ORDER BY 1"},
	{sql: "WITH c AS (SELECT a, COUNT(*) n FROM t1 GROUP BY a) SELECT a, n FROM c WHERE n > 1 ORDER BY a"},
	{sql: "SELECT id, ROW_NUMBER() OVER (PARTITION BY a ORDER BY id) FROM t1 WHERE a < 4 ORDER BY a, id"},
	{sql: "SELECT table_name, table_type FROM information_schema.tables WHERE table_schema = 'd' ORDER BY table_name"},
	{sql: "SELECT table_name, column_name FROM information_schema.columns WHERE table_schema = 'd' ORDER BY table_name, ordinal_position"},
	{sql: "SELECT table_name, index_name, column_name FROM information_schema.statistics WHERE table_schema = 'd' ORDER BY 1, 2, 3"},
	{sql: "SELECT COUNT(*) FROM information_schema.schemata"},
	{sql: "SHOW TABLES"},
	{sql: "SHOW CREATE TABLE t1"},
	{sql: "SHOW INDEX FROM t2"},
	{sql: "SHOW COLUMNS FROM t1"},
	{sql: "SHOW VARIABLES LIKE 'autocommit'"},
	{sql: "SELECT @@session.sql_mode, @@global.max_connections"},
	{sql: "EXPLAIN SELECT id FROM t1 WHERE a = 7"},
	{sql: "SELECT DATABASE(), 1 + 1, UPPER('x')"},
	{sql: "SELECT CONNECTION_ID()", session: true},
	{sql: "SET @mine = CONNECTION_ID() * 10", session: true},
	{sql: "SELECT @mine", session: true},
	{sql: "SELECT SQL_CALC_FOUND_ROWS id FROM t1 WHERE a < 9 ORDER BY id LIMIT 2", session: true},
	{sql: "SELECT FOUND_ROWS()", session: true},
	{sql: "PREPARE p1 FROM 'SELECT COUNT(*) FROM t1 WHERE a < ?'", session: true},
	{sql: "EXECUTE p1 USING @mine", session: true},
	// reads the shared process list while other sessions' scans update their progress in it
	{sql: "SHOW PROCESSLIST", session: true},
	{sql: "SHOW FULL PROCESSLIST", session: true},
	{sql: "SELECT COUNT(*) FROM t2 WHERE v >= 0"},
}

type c36Sess struct {
	s        *Sess
	mine     string // expected @mine ("NULL" until set)
	found    string // expected FOUND_ROWS()
	prepared bool
	queue    []int // indexes into the pool for the current round
	got      []string
	panicked string
}

func c36Render(r *Res) string {
	if r.Err != nil {
		return "ERROR " + ErrClass(r.Err)
	}
	if r.IsOk {
		return "OK"
	}
	return strings.Join(FormatRows(r.Rows, true), " ")
}

// exec runs one statement the way the server does: registered with the process list.
func (x *c36Sess) exec(q string) *Res {
	return x.s.exec(q, func(ctx *sql.Context) (sql.Schema, sql.RowIter, error) {
		pl := x.s.W.Eng.ProcessList
		// as the server builds it: the context knows the process list, so that table
		// scans report their progress to it
		ctx = sql.NewContext(ctx, sql.WithSession(x.s.S), sql.WithPid(ctx.Pid()), sql.WithProcessList(pl))
		ctx, err := pl.BeginQuery(ctx, q)
		if err != nil {
			return nil, nil, err
		}
		sch, iter, _, err := x.s.W.Eng.Query(ctx, q)
		if err != nil {
			pl.EndQuery(ctx)
			return nil, nil, err
		}
		return sch, &c36EndIter{RowIter: iter, done: func() { pl.EndQuery(ctx) }}, nil
	})
}

type c36EndIter struct {
	sql.RowIter
	done func()
}

func (i *c36EndIter) Close(ctx *sql.Context) error {
	err := i.RowIter.Close(ctx)
	i.done()
	return err
}

func checkC36a(env *kernel.Env) { runC36(env, false) }
func checkC36b(env *kernel.Env) { runC36(env, true) }

func runC36(env *kernel.Env, concurrent bool) {
	T := env.T
	w := NewWorld(env)
	defer w.Close()
	if concurrent {
		// the harness' own hooks are not meant for real concurrency (and read-only
		// statements reach none of the fault points)
		verifhook.FaultFn, verifhook.OrderFn = nil, nil
		raceLogInit()
	}
	setup := w.NewSession()
	setup.MustExec("CREATE TABLE t1 (id INT PRIMARY KEY, a INT, b VARCHAR(10), KEY ka (a))")
	setup.MustExec("CREATE TABLE t2 (id INT PRIMARY KEY, t1id INT, v INT, KEY kt (t1id))")
	var v1, v2 []string
	for i := 1; i <= 60; i++ {
		v1 = append(v1, fmt.Sprintf("(%d, %d, 'b%d')", i, i%13, i%4))
	}
	for i := 1; i <= 90; i++ {
		v2 = append(v2, fmt.Sprintf("(%d, %d, %d)", i, 1+(i*7)%45, i%97))
	}
	setup.MustExec("INSERT INTO t1 VALUES " + strings.Join(v1, ", "))
	setup.MustExec("INSERT INTO t2 VALUES " + strings.Join(v2, ", "))
	setup.MustExec("CREATE VIEW v1 AS SELECT id, b FROM t1 WHERE a > 2")
	// the run-alone results
	alone := make([]string, len(c36Pool))
	for i, q := range c36Pool {
		if !q.session {
			alone[i] = c36Render(setup.Exec(q.sql))
		}
	}
	countLT := func(n int64) string {
		r := setup.Exec(fmt.Sprintf("SELECT COUNT(*) FROM t1 WHERE a < %d", n))
		return c36Render(r)
	}
	foundWant := c36Render(setup.Exec("SELECT COUNT(*) FROM t1 WHERE a < 9"))
	limited := c36Render(setup.Exec("SELECT id FROM t1 WHERE a < 9 ORDER BY id LIMIT 2"))
	running0 := statusVar(setup, "Threads_running")
	pl := w.Eng.ProcessList
	nsess := T.Range(2, 8)
	var sess []*c36Sess
	for i := 0; i < nsess; i++ {
		s := w.NewSession()
		pl.AddConnection(s.ID, "client")
		pl.ConnectionReady(s.S)
		sess = append(sess, &c36Sess{s: s, mine: "NULL", found: ""})
	}
	env.Kind(fmt.Sprintf("sessions:%d", nsess))
	// expect returns what statement qi must return for session x, and updates the session model.
	expect := func(x *c36Sess, qi int) string {
		q := c36Pool[qi]
		if !q.session {
			return alone[qi]
		}
		switch {
		case q.sql == "SELECT CONNECTION_ID()":
			return fmt.Sprintf("(%d)", x.s.ID)
		case strings.HasPrefix(q.sql, "SET @mine"):
			x.mine = fmt.Sprint(int64(x.s.ID) * 10)
			return "OK"
		case q.sql == "SELECT @mine":
			return "(" + x.mine + ")"
		case strings.HasPrefix(q.sql, "SELECT SQL_CALC_FOUND_ROWS"):
			x.found = foundWant
			return limited
		case q.sql == "SELECT FOUND_ROWS()":
			return "?" // depends on the session's previous statement: checked only right after SQL_CALC_FOUND_ROWS
		case strings.HasPrefix(q.sql, "PREPARE"):
			x.prepared = true
			return "OK"
		case strings.HasPrefix(q.sql, "EXECUTE"):
			if !x.prepared {
				return "ERROR*"
			}
			if x.mine == "NULL" {
				return "(0)"
			}
			var n int64
			fmt.Sscan(x.mine, &n)
			return countLT(n)
		}
		return "?"
	}
	rounds := T.Range(1, 4)
	lostQuestions := ""
	for round := 0; round < rounds && !env.Failed(); round++ {
		// the overlap group of this round
		var members []*c36Sess
		for _, x := range sess {
			if T.Bool(3, 4) {
				members = append(members, x)
			}
		}
		if len(members) < 2 {
			members = sess[:2]
		}
		for _, x := range members {
			x.queue, x.got, x.panicked = nil, nil, ""
			n := T.Range(1, 5)
			for i := 0; i < n; i++ {
				x.queue = append(x.queue, T.Draw(len(c36Pool)))
			}
		}
		runOne := func(x *c36Sess, k int) {
			defer func() {
				if r := recover(); r != nil {
					x.panicked = fmt.Sprint(r)
					x.got = append(x.got, "PANIC")
				}
			}()
			x.got = append(x.got, c36Render(x.exec(c36Pool[x.queue[k]].sql)))
		}
		if concurrent {
			// the group runs three times (same sessions, same statements): only the
			// last pass is judged, the first two only add chances for the detector,
			// so that a replay in a fresh process meets the race again
			// calibration: the same statements once, one session after the other; the global
			// Questions counter must grow by the same amount in every concurrent pass (it is
			// bumped once per statement before anything can fail)
			questions := func() int64 {
				var n int64
				fmt.Sscan(statusVar(setup, "Questions"), &n)
				return n
			}
			q0 := questions()
			for _, x := range members {
				x.got, x.panicked = nil, ""
				for k := range x.queue {
					runOne(x, k)
				}
			}
			perPass := questions() - q0
			for pass := 0; pass < 3; pass++ {
				for _, x := range members {
					x.got, x.panicked = nil, ""
				}
				qStart := questions()
				var wg sync.WaitGroup
				start := make(chan struct{})
				for _, x := range members {
					wg.Add(1)
					go func(x *c36Sess) {
						defer wg.Done()
						<-start
						for k := range x.queue {
							runOne(x, k)
						}
					}(x)
				}
				close(start)
				wg.Wait()
				if got := questions() - qStart; got != perPass && lostQuestions == "" {
					lostQuestions = fmt.Sprintf("round %d pass %d: %d sessions ran their statements at once and the global status counter Questions grew by %d; the same statements run one session after the other grow it by %d", round, pass, len(members), got, perPass)
				}
			}
			env.Fault("overlap-group")
		} else {
			// statement-granular interleaving chosen by the tape
			next := map[*c36Sess]int{}
			for {
				var ready []*c36Sess
				for _, x := range members {
					if next[x] < len(x.queue) {
						ready = append(ready, x)
					}
				}
				if len(ready) == 0 {
					break
				}
				x := ready[T.Draw(len(ready))]
				runOne(x, next[x])
				next[x]++
			}
		}
		// judge, in a fixed order
		for _, x := range members {
			var line []string
			if concurrent {
				// the session's model goes through the three unjudged passes first (the
				// sequential calibration pass and two concurrent ones)
				for pass := 0; pass < 3; pass++ {
					for _, qi := range x.queue {
						expect(x, qi)
					}
				}
			}
			for k, qi := range x.queue {
				want := expect(x, qi)
				got := x.got[k]
				line = append(line, fmt.Sprintf("%d", qi))
				if x.panicked != "" && got == "PANIC" {
					env.Fail("no-panic", "panic-in-read-only-statement", "%s: %q panicked: %s", x.s.Name, c36Pool[qi].sql, x.panicked)
					break
				}
				switch {
				case want == "?":
				case want == "ERROR*":
					if !strings.HasPrefix(got, "ERROR") {
						env.Fail("session-state-isolated", "foreign-prepared-statement-visible", "%s: %q succeeded (%s) although this session never prepared p1", x.s.Name, c36Pool[qi].sql, got)
					}
				case got != want:
					cls := "result-differs-from-run-alone"
					if c36Pool[qi].session {
						cls = "session-state-leaked"
					}
					env.Fail("result-as-when-run-alone", cls, "%s (round %d, %d sessions at once): %q returned\n  %s\nrun alone it returns\n  %s", x.s.Name, round, len(members), c36Pool[qi].sql, got, want)
				}
				if env.Failed() {
					break
				}
				// FOUND_ROWS() right after SQL_CALC_FOUND_ROWS in the same session
				if strings.HasPrefix(c36Pool[qi].sql, "SELECT SQL_CALC_FOUND_ROWS") && k+1 < len(x.queue) && c36Pool[x.queue[k+1]].sql == "SELECT FOUND_ROWS()" {
					if x.got[k+1] != foundWant {
						env.Fail("session-state-isolated", "found-rows-of-another-session", "%s: FOUND_ROWS() right after its own SQL_CALC_FOUND_ROWS query returned %s, not %s", x.s.Name, x.got[k+1], foundWant)
						break
					}
				}
			}
			env.Logf("round %d %s: statements %s", round, x.s.Name, strings.Join(line, ","))
			env.Kind(fmt.Sprintf("q:%d:%s", len(members), strings.Join(line, ",")))
			if env.Failed() {
				break
			}
		}
		if env.Failed() {
			break
		}
		if concurrent && lostQuestions != "" {
			// seen, but a handful of statements per pass rarely lose an update again when the
			// run is replayed: counted here, judged by the counter storm at the end of the run
			env.Probe("questions-counter-differs-in-a-pass")
			lostQuestions = ""
		}
		if concurrent {
			if rep := raceLogNew(); rep != "" {
				a, b := raceSites(rep)
				env.Fail("no-data-race", "data-race:"+a+"<->"+b, "the race detector reported a data race while %d sessions ran read-only statements at once:\n%s", len(members), trimRaceReport(rep))
				break
			}
		}
		// quiescence: every connection idle, nothing running
		for _, p := range pl.Processes() {
			if p.Command != sql.ProcessCommandSleep {
				env.Fail("registries-consistent", "process-list-shows-running-query-at-quiescence", "after round %d connection %d is listed with command %s, query %q", round, p.Connection, p.Command, p.Query)
				break
			}
		}
		if got := statusVar(setup, "Threads_running"); got != running0 && !env.Failed() {
			env.Fail("registries-consistent", "threads-running-not-restored", "after round %d Threads_running is %s, it was %s before the sessions started", round, got, running0)
		}
		if len(pl.Processes()) != nsess && !env.Failed() {
			env.Fail("registries-consistent", "process-list-lost-connections", "the process list shows %d connections, %d are open", len(pl.Processes()), nsess)
		}
		env.Nontrivial()
	}
	if concurrent && !env.Failed() && T.Bool(1, 2) {
		// shared counters under many short statements at once: every session runs a cheap
		// statement in a tight loop; the global Questions counter must account for each
		// (a read-modify-write instead of an atomic add loses some)
		const each = 400
		var n0 int64
		fmt.Sscan(statusVar(setup, "Questions"), &n0)
		var wg sync.WaitGroup
		start := make(chan struct{})
		for _, x := range sess {
			wg.Add(1)
			go func(x *c36Sess) {
				defer wg.Done()
				defer func() { _ = recover() }()
				<-start
				for i := 0; i < each; i++ {
					x.exec("SELECT 1")
				}
			}(x)
		}
		close(start)
		wg.Wait()
		var n1 int64
		fmt.Sscan(statusVar(setup, "Questions"), &n1)
		env.Kind("counter-storm")
		env.Fault("counter-storm")
		if rep := raceLogNew(); rep != "" {
			a, b := raceSites(rep)
			env.Fail("no-data-race", "data-race:"+a+"<->"+b, "the race detector reported a data race while %d sessions ran SELECT 1 in a loop:\n%s", nsess, trimRaceReport(rep))
		} else if n1-n0 != int64(each*nsess) {
			env.Fail("registries-consistent", "status-counter-lost-update", "%d sessions ran SELECT 1 %d times each at once; the global status counter Questions grew by %d, not %d", nsess, each, n1-n0, each*nsess)
		}
	}
	for _, x := range sess {
		pl.RemoveConnection(x.s.ID)
	}
}

func statusVar(s *Sess, name string) string {
	_, v, ok := sql.StatusVariables.GetGlobal(name)
	if !ok {
		return "?"
	}
	return fmt.Sprint(v)
}

// ---- race detector output ----

var (
	raceLogOnce sync.Once
	raceLogFile *os.File
	raceLogPos  int64
)

// raceLogInit points the process's stderr (where the race detector writes) at a file.
func raceLogInit() {
	raceLogOnce.Do(func() {
		f, err := os.CreateTemp("", "verif-race-*.log")
		if err != nil {
			kernel.Harnessf("race log: %v", err)
		}
		if err := syscall.Dup2(int(f.Fd()), 2); err != nil {
			kernel.Harnessf("race log: dup2: %v", err)
		}
		raceLogFile = f
		os.Remove(f.Name()) // stays open; nothing is left behind
	})
}

// raceLogNew returns what was written to stderr since the last call when it holds a race report.
func raceLogNew() string {
	if raceLogFile == nil {
		return ""
	}
	st, err := raceLogFile.Stat()
	if err != nil || st.Size() <= raceLogPos {
		return ""
	}
	buf := make([]byte, st.Size()-raceLogPos)
	raceLogFile.ReadAt(buf, raceLogPos)
	raceLogPos = st.Size()
	out := string(buf)
	if strings.Contains(out, "WARNING: DATA RACE") || strings.Contains(out, "fatal error: concurrent map") {
		return out
	}
	return ""
}

var raceFrame = regexp.MustCompile(`(?m)^  (github\.com/dolthub/go-mysql-server[^\s(]*(?:\([^)]*\))?[^\s(]*)\(`)

// raceSites names the top engine function of the two accesses of the first report.
func raceSites(rep string) (string, string) {
	var sites []string
	for _, block := range strings.Split(rep, "\n\n") {
		if !(strings.Contains(block, "Write at") || strings.Contains(block, "Read at") || strings.Contains(block, "Previous write at") || strings.Contains(block, "Previous read at")) {
			continue
		}
		if m := raceFrame.FindStringSubmatch(block); m != nil {
			f := strings.TrimPrefix(m[1], "github.com/dolthub/go-mysql-server/")
			sites = append(sites, f)
		} else {
			sites = append(sites, "?")
		}
		if len(sites) == 2 {
			break
		}
	}
	for len(sites) < 2 {
		sites = append(sites, "?")
	}
	sort.Strings(sites)
	return sites[0], sites[1]
}

func trimRaceReport(rep string) string {
	lines := strings.Split(rep, "\n")
	var out []string
	for _, l := range lines {
		if strings.HasPrefix(l, "      ") || strings.TrimSpace(l) == "" {
			continue // file:line lines carry addresses and offsets
		}
		out = append(out, l)
		if len(out) > 40 {
			break
		}
	}
	return strings.Join(out, "\n")
}

package sqlsim

import (
	"fmt"
	"regexp"
	"sort"
	"strconv"
	"strings"

	"verif/sim/kernel"
)

// C21: schema changes preserve existing data. A generated table with rows is
// taken through a sequence of ALTER TABLE operations (add / drop / rename /
// modify / change column, add / drop primary key, unique and plain indexes,
// rename table), some of which cannot be carried out on the data present (a
// value not representable in the new type, NULL in a column becoming NOT NULL,
// duplicates under a new unique key); a storage error is injected into the
// table rewrite of some; a second session reads and inserts in between.
//
// Oracle after every statement: SELECT * equals the model (retained columns
// keep their values, converted when representable); a statement the model
// cannot carry out fails, and any failed statement leaves data and schema
// unchanged; DESCRIBE and information_schema.columns report the model's schema.

type aCol struct {
	name    string
	typ     string // tinyint, smallint, int, bigint, varchar, enum
	n       int    // varchar length
	enum    []string
	notNull bool
	def     any // nil = no default; int64 or string
}

func (c *aCol) typeSQL() string {
	if c.typ == "varchar" {
		return fmt.Sprintf("varchar(%d)", c.n)
	}
	if c.typ == "enum" {
		return "enum('" + strings.Join(c.enum, "','") + "')"
	}
	return c.typ
}

func (c *aCol) ddl() string {
	s := c.name + " " + strings.ToUpper(c.typeSQL())
	if c.typ == "enum" {
		s = c.name + " " + c.typeSQL()
	}
	if c.notNull {
		s += " NOT NULL"
	}
	if c.def != nil {
		s += " DEFAULT " + aLit(c.def)
	}
	return s
}

func aLit(v any) string {
	switch x := v.(type) {
	case nil:
		return "NULL"
	case int64:
		return fmt.Sprint(x)
	case string:
		return "'" + strings.ReplaceAll(x, "'", "''") + "'"
	}
	return "NULL"
}

var aIntRange = map[string][2]int64{
	"tinyint":  {-128, 127},
	"smallint": {-32768, 32767},
	"int":      {-2147483648, 2147483647},
	"bigint":   {-9223372036854775808, 9223372036854775807},
}

// aConvert converts v to the column type; ok=false when not representable.
func aConvert(v any, c *aCol) (any, string) {
	if v == nil {
		if c.notNull {
			return nil, "not-null"
		}
		return nil, ""
	}
	if c.typ == "enum" {
		// only values of another ENUM definition are converted: by name
		if x, ok := v.(string); ok {
			for _, e := range c.enum {
				if e == x {
					return x, ""
				}
			}
		}
		return nil, "out-of-range"
	}
	if c.typ == "varchar" {
		var s string
		switch x := v.(type) {
		case int64:
			s = fmt.Sprint(x)
		case string:
			s = x
		}
		if len([]rune(s)) > c.n {
			return nil, "out-of-range"
		}
		return s, ""
	}
	var n int64
	switch x := v.(type) {
	case int64:
		n = x
	case string:
		// the text of an integer, leading zeros allowed ('0012' is 12, as in MySQL);
		// the empty string and anything else is not a number
		p, err := strconv.ParseInt(x, 10, 64)
		if err != nil || strings.ContainsAny(x, "+ ") {
			return nil, "out-of-range"
		}
		n = p
	}
	r := aIntRange[c.typ]
	if n < r[0] || n > r[1] {
		return nil, "out-of-range"
	}
	return n, ""
}

type aIndex struct {
	name   string
	col    string
	unique bool
}

type aModel struct {
	name  string
	cols  []*aCol
	rows  [][]any
	pk    string // column name, "" none
	idx   []*aIndex
	nextC int
}

func (m *aModel) clone() *aModel {
	c := &aModel{name: m.name, pk: m.pk, nextC: m.nextC}
	for _, x := range m.cols {
		y := *x
		c.cols = append(c.cols, &y)
	}
	for _, r := range m.rows {
		c.rows = append(c.rows, append([]any(nil), r...))
	}
	for _, x := range m.idx {
		y := *x
		c.idx = append(c.idx, &y)
	}
	return c
}

func (m *aModel) ci(name string) int {
	for i, c := range m.cols {
		if c.name == name {
			return i
		}
	}
	return -1
}

func (m *aModel) keyed(col string) bool {
	if m.pk == col {
		return true
	}
	for _, x := range m.idx {
		if x.col == col {
			return true
		}
	}
	return false
}

// uniqueViolation reports whether column ci holds duplicates (NULLs never collide).
func (m *aModel) dup(ci int) bool {
	seen := map[string]bool{}
	for _, r := range m.rows {
		if r[ci] == nil {
			continue
		}
		k := aLit(r[ci])
		if seen[k] {
			return true
		}
		seen[k] = true
	}
	return false
}

func (m *aModel) hasNull(ci int) bool {
	for _, r := range m.rows {
		if r[ci] == nil {
			return true
		}
	}
	return false
}

func (m *aModel) render() string {
	var out []string
	for _, r := range m.rows {
		s := make([]string, len(r))
		for i, v := range r {
			s[i] = aLit(v)
			if c := m.cols[i]; c.typ == "enum" && v != nil {
				// the engine's rows hold the 1-based position in the definition
				for k, e := range c.enum {
					if e == v {
						s[i] = fmt.Sprint(k + 1)
					}
				}
			}
		}
		out = append(out, "("+strings.Join(s, ",")+")")
	}
	sort.Strings(out)
	return strings.Join(out, " ")
}

// describe renders what DESCRIBE must show: field|type|null|key|default.
func (m *aModel) describe() string {
	var out []string
	for _, c := range m.cols {
		null := "YES"
		if c.notNull || m.pk == c.name {
			null = "NO"
		}
		key := ""
		switch {
		case m.pk == c.name:
			key = "PRI"
		default:
			for _, x := range m.idx {
				if x.col == c.name {
					if x.unique {
						key = "UNI"
					} else if key == "" {
						key = "MUL"
					}
				}
			}
		}
		def := "NULL"
		if c.def != nil {
			def = fmt.Sprint(c.def)
		}
		out = append(out, fmt.Sprintf("%s|%s|%s|%s|%s", c.name, c.typeSQL(), null, key, def))
	}
	return strings.Join(out, " ")
}

type aOp struct {
	kind  string
	sql   string
	apply func(m *aModel) string // mutates m; returns failure kind or ""
}

func checkC21(env *kernel.Env) {
	T := env.T
	w := NewWorld(env)
	defer w.Close()
	s1, s2 := w.NewSession(), w.NewSession()
	m := &aModel{name: "t"}
	m.cols = []*aCol{{name: "id", typ: "int", notNull: true}}
	m.pk = "id"
	types := []aCol{{typ: "int"}, {typ: "bigint"}, {typ: "smallint"}, {typ: "tinyint"}, {typ: "varchar", n: 12}, {typ: "varchar", n: 4}}
	enums := [][]string{{"a", "b", "c"}, {"c", "a"}, {"b", "c", "a", "d"}, {"a", "b"}, {"x y", "a", "12"}}
	withEnum := T.Bool(1, 3)
	genType := func() aCol {
		if withEnum && T.Bool(1, 4) {
			return aCol{typ: "enum", enum: enums[T.Draw(len(enums))]}
		}
		return types[T.Draw(len(types))]
	}
	for i, n := 0, T.Range(1, 4); i < n; i++ {
		c := genType()
		m.nextC++
		c.name = fmt.Sprintf("c%d", m.nextC)
		c.notNull = T.Bool(1, 4)
		m.cols = append(m.cols, &c)
	}
	var defs []string
	for _, c := range m.cols {
		defs = append(defs, c.ddl())
	}
	defs = append(defs, "PRIMARY KEY (id)")
	q := fmt.Sprintf("CREATE TABLE t (%s)", strings.Join(defs, ", "))
	env.Logf("%s", q)
	s1.MustExec(q)
	ints := []int64{0, 1, 5, 12, 100, 127, 128, -3, 300, 32767, 40000, 2147483647, 3000000000}
	strs := []string{"a", "12", "7", "abc", "-4", "0012", "x y", "300", "99999", "longertext", "40000"}
	genVal := func(c *aCol) any {
		if !c.notNull && T.Bool(1, 7) {
			return nil
		}
		for tries := 0; tries < 20; tries++ {
			var v any
			if c.typ == "enum" {
				v = c.enum[T.Draw(len(c.enum))]
			} else if c.typ == "varchar" {
				v = strs[T.Draw(len(strs))]
			} else {
				v = ints[T.Draw(len(ints))]
			}
			if cv, bad := aConvert(v, c); bad == "" {
				return cv
			}
		}
		if c.typ == "enum" {
			return c.enum[0]
		}
		if c.typ == "varchar" {
			return "a"
		}
		return int64(1)
	}
	nextID := int64(0)
	insertRow := func(s *Sess, must bool) {
		nextID++
		row := make([]any, len(m.cols))
		var lits []string
		for i, c := range m.cols {
			if c.name == "id" && m.ci("id") == i {
				v, bad := aConvert(nextID, c)
				if bad != "" {
					return // the id column no longer holds such a value
				}
				row[i] = v
			} else {
				row[i] = genVal(c)
			}
			lits = append(lits, aLit(row[i]))
		}
		// respect unique keys: skip the row when it would collide
		for _, x := range append([]*aIndex{{col: m.pk, unique: m.pk != ""}}, m.idx...) {
			if !x.unique || x.col == "" {
				continue
			}
			ci := m.ci(x.col)
			for _, r := range m.rows {
				if r[ci] != nil && row[ci] != nil && aLit(r[ci]) == aLit(row[ci]) {
					return
				}
			}
		}
		q := fmt.Sprintf("INSERT INTO %s VALUES (%s)", m.name, strings.Join(lits, ", "))
		r := s.Exec(q)
		env.Logf("%s: %s -> %s", s.Name, q, ErrClass(r.Err))
		if r.Err != nil {
			env.Fail("valid-insert-succeeds", "insert-under-model-schema-refused", "%q failed (%v) although every value fits the schema the model holds: %s", q, r.Err, m.describe())
			return
		}
		m.rows = append(m.rows, row)
	}
	for i, n := 0, T.Range(2, 8); i < n && !env.Failed(); i++ {
		insertRow(s1, true)
	}
	readAll := func(s *Sess) string {
		r := s.Exec("SELECT * FROM " + m.name)
		if r.Err != nil {
			return "ERROR " + ErrClass(r.Err)
		}
		return strings.Join(FormatRows(r.Rows, false), " ")
	}
	readDescribe := func(s *Sess, name string) string {
		r := s.Exec("DESCRIBE " + name)
		if r.Err != nil {
			return "ERROR " + ErrClass(r.Err)
		}
		var out []string
		for _, row := range r.Rows {
			f := make([]string, 5)
			for i := 0; i < 5 && i < len(row); i++ {
				f[i] = strings.Trim(FormatVal(row[i]), "'")
			}
			// a column type spelled with the table's own default character set and
			// collation is the same type
			f[1] = strings.ReplaceAll(f[1], " CHARACTER SET utf8mb4 COLLATE utf8mb4_0900_bin", "")
			out = append(out, strings.Join(f, "|"))
		}
		if m.pk == "" {
			// without a primary key MySQL (and this engine) shows the first UNIQUE
			// index over NOT NULL columns as PRI
			return strings.ReplaceAll(strings.Join(out, " "), "|NO|PRI|", "|NO|UNI|")
		}
		return strings.Join(out, " ")
	}
	readInfoSchema := func(s *Sess, name string) string {
		r := s.Exec(fmt.Sprintf("SELECT column_name, data_type, is_nullable FROM information_schema.columns WHERE table_schema = 'd' AND table_name = '%s' ORDER BY ordinal_position", name))
		if r.Err != nil {
			return "ERROR " + ErrClass(r.Err)
		}
		var out []string
		for _, row := range r.Rows {
			out = append(out, strings.Trim(FormatVal(row[0]), "'")+"|"+strings.Trim(FormatVal(row[1]), "'")+"|"+strings.Trim(FormatVal(row[2]), "'"))
		}
		return strings.Join(out, " ")
	}
	infoWant := func() string {
		var out []string
		for _, c := range m.cols {
			null := "YES"
			if c.notNull || m.pk == c.name {
				null = "NO"
			}
			out = append(out, c.name+"|"+c.typ+"|"+null)
		}
		return strings.Join(out, " ")
	}
	genOp := func() *aOp {
		nonKey := func() []*aCol {
			var out []*aCol
			for _, c := range m.cols {
				if !m.keyed(c.name) {
					out = append(out, c)
				}
			}
			return out
		}
		position := func() (string, func(m *aModel, c *aCol)) {
			switch T.Pick(3, 1, 2) {
			case 1:
				return " FIRST", func(m *aModel, c *aCol) { m.cols = append([]*aCol{c}, m.cols...) }
			case 2:
				after := m.cols[T.Draw(len(m.cols))].name
				return " AFTER " + after, func(m *aModel, c *aCol) {
					i := m.ci(after)
					m.cols = append(m.cols[:i+1], append([]*aCol{c}, m.cols[i+1:]...)...)
				}
			}
			return "", func(m *aModel, c *aCol) { m.cols = append(m.cols, c) }
		}
		for {
			pick := T.Pick(4, 2, 2, 6, 2, 1, 1, 2, 1, 1, 1)
			// known finding (schema-change-with-secondary-index): once the table has a
			// secondary index most runs keep to changes that neither move nor retype columns
			safeOnly := len(m.idx) > 0 && env.Avoid("schema-change-with-secondary-index")
			if safeOnly && pick >= 1 && pick <= 6 {
				continue
			}
			switch pick {
			case 0: // ADD COLUMN
				c := genType()
				m.nextC++
				c.name = fmt.Sprintf("c%d", m.nextC)
				c.notNull = T.Bool(1, 3)
				if c.typ == "enum" {
					// (a NOT NULL ENUM column is always given its default explicitly)
					if c.notNull || T.Bool(1, 2) {
						c.def = c.enum[T.Draw(len(c.enum))]
					}
				} else if T.Bool(1, 2) {
					if c.typ == "varchar" {
						c.def = "dv"
					} else {
						c.def = int64(T.Range(0, 9))
					}
				}
				posSQL, place := position()
				if safeOnly {
					posSQL, place = "", func(m *aModel, c *aCol) { m.cols = append(m.cols, c) }
				}
				return &aOp{kind: "add-column", sql: fmt.Sprintf("ALTER TABLE %s ADD COLUMN %s%s", m.name, c.ddl(), posSQL), apply: func(m *aModel) string {
					var fill any
					switch {
					case c.def != nil:
						fill = c.def
					case !c.notNull:
						fill = nil
					case c.typ == "varchar":
						fill = "" // implicit default of a NOT NULL column
					default:
						fill = int64(0)
					}
					cc := c
					old := m.cols
					place(m, &cc)
					at := m.ci(cc.name)
					_ = old
					for i, r := range m.rows {
						nr := append([]any(nil), r[:at]...)
						nr = append(nr, fill)
						nr = append(nr, r[at:]...)
						m.rows[i] = nr
					}
					return ""
				}}
			case 1: // DROP COLUMN
				nk := nonKey()
				if len(nk) == 0 || len(m.cols) < 2 {
					continue
				}
				c := nk[T.Draw(len(nk))]
				name := c.name
				return &aOp{kind: "drop-column", sql: fmt.Sprintf("ALTER TABLE %s DROP COLUMN %s", m.name, name), apply: func(m *aModel) string {
					at := m.ci(name)
					m.cols = append(m.cols[:at], m.cols[at+1:]...)
					for i, r := range m.rows {
						m.rows[i] = append(append([]any(nil), r[:at]...), r[at+1:]...)
					}
					return ""
				}}
			case 2: // RENAME COLUMN
				c := m.cols[T.Draw(len(m.cols))]
				m.nextC++
				from, to := c.name, fmt.Sprintf("r%d", m.nextC)
				return &aOp{kind: "rename-column", sql: fmt.Sprintf("ALTER TABLE %s RENAME COLUMN %s TO %s", m.name, from, to), apply: func(m *aModel) string {
					m.cols[m.ci(from)].name = to
					if m.pk == from {
						m.pk = to
					}
					for _, x := range m.idx {
						if x.col == from {
							x.col = to
						}
					}
					return ""
				}}
			case 3, 4: // MODIFY COLUMN / CHANGE COLUMN: new type and nullability
				c := m.cols[T.Draw(len(m.cols))]
				nc := genType()
				for (nc.typ == "enum") != (c.typ == "enum") {
					// an ENUM column is redefined as another ENUM; other conversions from /
					// to ENUM (by position? by name?) are not generated
					if c.typ == "enum" {
						nc = aCol{typ: "enum", enum: enums[T.Draw(len(enums))]}
					} else {
						nc = types[T.Draw(len(types))]
					}
				}
				nc.name = c.name
				if nc.typ != "varchar" && nc.typ != "enum" {
					// '' -> integer is 0 in this engine everywhere (INSERT too), an error in
					// strict MySQL: a conversion rule, not an ALTER matter; not generated
					at := m.ci(c.name)
					for _, r := range m.rows {
						if r[at] == "" {
							nc = aCol{typ: "varchar", n: 12}
							nc.name = c.name
							break
						}
					}
				}
				nc.notNull = T.Bool(1, 3)
				if m.pk == c.name {
					nc.notNull = true
				}
				if T.Bool(1, 3) {
					// a DEFAULT in the new definition is for future inserts; it does not
					// stand in for the NULLs already stored
					switch nc.typ {
					case "enum":
						nc.def = nc.enum[T.Draw(len(nc.enum))]
					case "varchar":
						nc.def = "dv"
					default:
						nc.def = int64(T.Range(0, 9))
					}
				}
				from := c.name
				sqlText := fmt.Sprintf("ALTER TABLE %s MODIFY COLUMN %s", m.name, nc.ddl())
				kind := "modify-column"
				if T.Bool(1, 4) {
					m.nextC++
					nc.name = fmt.Sprintf("h%d", m.nextC)
					sqlText = fmt.Sprintf("ALTER TABLE %s CHANGE COLUMN %s %s", m.name, from, nc.ddl())
					kind = "change-column"
				}
				// the column may move in the same clause: converted values travel with it
				moveTo := "" // "", "FIRST" or the name of the column it goes after
				if len(m.cols) > 1 && T.Bool(1, 3) {
					if T.Bool(1, 3) {
						moveTo = "FIRST"
						sqlText += " FIRST"
					} else {
						var others []string
						for _, o := range m.cols {
							if o.name != from {
								others = append(others, o.name)
							}
						}
						moveTo = others[T.Draw(len(others))]
						sqlText += " AFTER " + moveTo
					}
				}
				return &aOp{kind: kind, sql: sqlText, apply: func(m *aModel) string {
					at := m.ci(from)
					for i, r := range m.rows {
						v, bad := aConvert(r[at], &nc)
						if bad != "" {
							return bad
						}
						m.rows[i][at] = v
					}
					cc := nc
					m.cols[at] = &cc
					if m.pk == from {
						m.pk = cc.name
					}
					unique := m.pk == cc.name
					for _, x := range m.idx {
						if x.col == from {
							x.col = cc.name
							unique = unique || x.unique
						}
					}
					if unique && m.dup(at) {
						return "duplicate-key"
					}
					if moveTo != "" {
						col := m.cols[at]
						m.cols = append(m.cols[:at:at], m.cols[at+1:]...)
						to := 0
						if moveTo != "FIRST" {
							to = m.ci(moveTo) + 1
						}
						m.cols = append(m.cols[:to:to], append([]*aCol{col}, m.cols[to:]...)...)
						for i, r := range m.rows {
							v := r[at]
							rest := append(append([]any(nil), r[:at]...), r[at+1:]...)
							m.rows[i] = append(append(append([]any(nil), rest[:to]...), v), rest[to:]...)
						}
					}
					return ""
				}}
			case 5: // ADD PRIMARY KEY
				if m.pk != "" {
					continue
				}
				c := m.cols[T.Draw(len(m.cols))]
				name := c.name
				return &aOp{kind: "add-primary-key", sql: fmt.Sprintf("ALTER TABLE %s ADD PRIMARY KEY (%s)", m.name, name), apply: func(m *aModel) string {
					at := m.ci(name)
					if m.hasNull(at) {
						return "not-null"
					}
					if m.dup(at) {
						return "duplicate-key"
					}
					m.pk = name
					m.cols[at].notNull = true
					return ""
				}}
			case 6: // DROP PRIMARY KEY
				if m.pk == "" {
					continue
				}
				return &aOp{kind: "drop-primary-key", sql: fmt.Sprintf("ALTER TABLE %s DROP PRIMARY KEY", m.name), apply: func(m *aModel) string {
					m.pk = ""
					return ""
				}}
			case 7: // ADD [UNIQUE] INDEX
				c := m.cols[T.Draw(len(m.cols))]
				name := c.name
				unique := T.Bool(1, 2)
				m.nextC++
				iname := fmt.Sprintf("ix%d", m.nextC)
				if T.Bool(1, 3) {
					iname = fmt.Sprintf("Ix%d", m.nextC) // index names are case-insensitive but keep their spelling
				}
				u := ""
				if unique {
					u = "UNIQUE "
				}
				return &aOp{kind: "add-index", sql: fmt.Sprintf("ALTER TABLE %s ADD %sINDEX %s (%s)", m.name, u, iname, name), apply: func(m *aModel) string {
					if unique && m.dup(m.ci(name)) {
						return "duplicate-key"
					}
					m.idx = append(m.idx, &aIndex{iname, name, unique})
					return ""
				}}
			case 8: // DROP INDEX
				if len(m.idx) == 0 {
					continue
				}
				i := T.Draw(len(m.idx))
				iname := m.idx[i].name
				spelled := iname
				if T.Bool(1, 3) {
					spelled = strings.ToLower(iname)
				}
				return &aOp{kind: "drop-index", sql: fmt.Sprintf("ALTER TABLE %s DROP INDEX %s", m.name, spelled), apply: func(m *aModel) string {
					for j, x := range m.idx {
						if x.name == iname {
							m.idx = append(m.idx[:j], m.idx[j+1:]...)
							break
						}
					}
					return ""
				}}
			case 10: // RENAME INDEX
				if len(m.idx) == 0 {
					continue
				}
				i := T.Draw(len(m.idx))
				iname := m.idx[i].name
				m.nextC++
				to := fmt.Sprintf("%s%d", []string{"rx", "Rx"}[T.Draw(2)], m.nextC)
				return &aOp{kind: "rename-index", sql: fmt.Sprintf("ALTER TABLE %s RENAME INDEX %s TO %s", m.name, iname, to), apply: func(m *aModel) string {
					for _, x := range m.idx {
						if x.name == iname {
							x.name = to
						}
					}
					return ""
				}}
			default: // RENAME TABLE
				to := "t2"
				if m.name == "t2" {
					to = "t"
				}
				from := m.name
				sqlText := fmt.Sprintf("ALTER TABLE %s RENAME TO %s", from, to)
				if T.Bool(1, 2) {
					sqlText = fmt.Sprintf("RENAME TABLE %s TO %s", from, to)
				}
				return &aOp{kind: "rename-table", sql: sqlText, apply: func(m *aModel) string {
					m.name = to
					return ""
				}}
			}
		}
	}
	steps := T.Range(3, 16)
	if env.Tier == "thorough" {
		steps = T.Range(3, 30)
	}
	if T.Bool(1, 5) {
		// a side table with a composite primary key: renaming / retyping one of the key
		// columns keeps the key (its column order, what it refuses, what it finds)
		s1.MustExec("CREATE TABLE ck (a INT, b INT, c INT, PRIMARY KEY (a, b))")
		s1.MustExec("INSERT INTO ck VALUES (1, 1, 1), (1, 2, 2), (2, 1, 5)")
		names := []string{"a", "b"}
		for i, n := 0, T.Range(1, 3); i < n && !env.Failed(); i++ {
			k := T.Draw(2)
			m.nextC++
			to := fmt.Sprintf("k%d", m.nextC)
			q := fmt.Sprintf("ALTER TABLE ck RENAME COLUMN %s TO %s", names[k], to)
			switch T.Draw(3) {
			case 1:
				q = fmt.Sprintf("ALTER TABLE ck CHANGE COLUMN %s %s BIGINT NOT NULL", names[k], to)
			case 2:
				q, to = fmt.Sprintf("ALTER TABLE ck MODIFY COLUMN %s BIGINT NOT NULL", names[k]), names[k]
			}
			r := s1.Exec(q)
			env.Kind("composite-key-column-change")
			env.Logf("s1: %s -> %s", q, ErrClass(r.Err))
			if r.Err != nil {
				env.Fail("representable-change-succeeds", "valid-alter-refused:composite-key", "%q failed: %v", q, r.Err)
				break
			}
			names[k] = to
			sc := s2.Exec("SHOW CREATE TABLE ck")
			wantKey := fmt.Sprintf("PRIMARY KEY (`%s`,`%s`)", names[0], names[1])
			if sc.Err != nil || len(sc.Rows) != 1 || !strings.Contains(fmt.Sprint(sc.Rows[0][1]), wantKey) {
				env.Fail("schema-reported", "composite-key-order-changed", "after %q SHOW CREATE TABLE ck does not show %s:\n%v (err %v)", q, wantKey, sc.Rows, sc.Err)
				break
			}
			dup := s1.Exec("INSERT INTO ck VALUES (1, 2, 9)")
			fresh := s1.Exec(fmt.Sprintf("INSERT INTO ck VALUES (2, %d, 0)", 10+i))
			cnt := s2.Exec(fmt.Sprintf("SELECT COUNT(*) FROM ck WHERE %s = 1", names[0]))
			if ErrClass(dup.Err) != "duplicate-key" || fresh.Err != nil || cnt.Err != nil || FormatVal(cnt.Rows[0][0]) != "2" {
				env.Fail("data-preserved", "composite-key-broken-after-alter", "after %q: inserting the existing key (1,2) -> %v, a new key (2,%d) -> %v, rows with %s = 1: %v (err %v); want duplicate-key / ok / 2", q, dup.Err, 10+i, fresh.Err, names[0], FormatRows(cnt.Rows, true), cnt.Err)
				break
			}
		}
	}
	// reads through every secondary index find the rows the table holds (row: the
	// model row whose values are looked up, -1 = one drawn per index)
	indexReads := func(s *Sess, when, class string, row int) {
		for _, x := range m.idx {
			if env.Failed() || len(m.rows) == 0 {
				break
			}
			ci := m.ci(x.col)
			ri := row
			if ri < 0 || ri >= len(m.rows) {
				ri = T.Draw(len(m.rows))
			}
			v := m.rows[ri][ci]
			if v == nil {
				continue
			}
			want := 0
			for _, r := range m.rows {
				if r[ci] != nil && aLit(r[ci]) == aLit(v) {
					want++
				}
			}
			q := fmt.Sprintf("SELECT COUNT(*) FROM %s WHERE %s = %s", m.name, x.col, aLit(v))
			r := s.Exec(q)
			if r.Err != nil || len(r.Rows) != 1 || FormatVal(r.Rows[0][0]) != fmt.Sprint(want) {
				env.Fail("data-preserved", class, "%s: %s returns %v (err %v); the table holds %d such row(s)", when, q, FormatRows(r.Rows, true), r.Err, want)
			}
		}
	}
	faults := T.Bool(1, 2)
	for step := 0; step < steps && !env.Failed(); step++ {
		if T.Bool(1, 4) {
			nRows := len(m.rows)
			insertRow([]*Sess{s1, s2}[T.Draw(2)], true)
			env.Kind("insert")
			if len(m.rows) > nRows && !env.Failed() {
				// the row just stored is found through every index (a failed ALTER before
				// it must have left the indexes as they were)
				indexReads(s1, fmt.Sprintf("after the insert of row %d", len(m.rows)), "index-read-differs-after-insert", len(m.rows)-1)
			}
			continue
		}
		s := []*Sess{s1, s2}[T.Draw(2)]
		op := genOp()
		next := m.clone()
		wantErr := op.apply(next)
		// a second clause in the same ALTER TABLE statement, generated against the
		// table as the first clause leaves it; the statement succeeds or fails as a whole
		combinable := map[string]bool{"add-column": true, "drop-column": true, "add-index": true, "drop-index": true}
		// clauses that retype or rename a column are combined too, with a second clause
		// that names none of the columns / indexes the first one names (so that "as the
		// first clause leaves it" and MySQL's "as the statement found it" agree)
		colChange := map[string]bool{"modify-column": true, "change-column": true, "rename-column": true}
		if !env.Avoid("multi-clause-column-change") {
			for k := range colChange {
				combinable[k] = true
			}
		}
		if wantErr == "" && combinable[op.kind] && T.Bool(1, 3) {
			cur := *m
			*m = *next.clone()
			op2 := genOp()
			cur.nextC, next.nextC = m.nextC, m.nextC // names handed out while generating stay taken
			*m = cur
			added := ""
			if f := strings.Fields(op.sql); op.kind == "add-column" && len(f) > 5 {
				added = f[5]
			}
			prefix := "ALTER TABLE " + m.name + " "
			if combinable[op2.kind] && strings.HasPrefix(op2.sql, prefix) && (added == "" || !strings.Contains(op2.sql+" ", " "+added+" ") && !strings.Contains(op2.sql, "("+added+")")) &&
				(!(colChange[op.kind] || colChange[op2.kind]) || c21Disjoint(strings.TrimPrefix(op.sql, prefix), strings.TrimPrefix(op2.sql, prefix))) {
				if colChange[op.kind] || colChange[op2.kind] {
					env.ClassPrefix = "multi-clause-column-change/"
					env.Probe("multi-clause-column-change")
				}
				probe := next.clone()
				// an index created in the same statement as a column-moving clause belongs to
				// the schema-change-with-secondary-index family
				unsafeIdx := (op.kind == "add-index" || op2.kind == "add-index") && !(c21Safe(op) && c21Safe(op2))
				if unsafeIdx && env.Avoid("schema-change-with-secondary-index") {
					// not combined
				} else if e2 := op2.apply(probe); e2 == "" || !env.Avoid("multi-clause-alter-not-atomic") {
					if unsafeIdx {
						env.ClassPrefix = "schema-change-with-index/"
					}
					// (known finding: when a later clause fails, the earlier ones are not undone;
					// most runs only combine clauses that can be carried out)
					wantErr = op2.apply(next)
					op = &aOp{kind: op.kind + "+" + op2.kind, sql: op.sql + ", " + strings.TrimPrefix(op2.sql, prefix)}
					env.Probe("multi-clause-alter")
				}
			}
		}
		before, beforeDesc, beforeName := m.render(), m.describe(), m.name
		armed := 0
		multi := strings.Contains(op.kind, "+")
		if faults && T.Bool(1, 3) && !(multi && env.Avoid("multi-clause-alter-not-atomic")) {
			armed = T.Range(1, 4)
			w.Arm(armed, "")
		}
		r, pan := s.ExecRecover(op.sql)
		fired := w.Fired()
		w.ResetEditCount()
		if pan != "" {
			if len(m.idx) > 0 && !c21Safe(op) {
				env.ClassPrefix = "schema-change-with-index/"
			}
			env.Fail("no-panic", "panic:"+pan, "%q panicked in %s", op.sql, pan)
			break
		}
		cls := ErrClass(r.Err)
		env.Logf("%s: %s -> %s  [model: %s; fault fired: %v]", s.Name, op.sql, cls, okOr(wantErr), fired)
		env.Kind(fmt.Sprintf("%s:%s:%v", op.kind, clsKind(cls), fired))
		if fired {
			env.Fault("edit-error:" + op.kind)
			if r.Err == nil {
				env.Fail("storage-error-fails-statement", "injected-error-swallowed:"+op.kind, "storage error injected at edit call %d of %q, but the statement reported success", armed, op.sql)
				break
			}
		}
		if r.Err != nil {
			if multi {
				env.ClassPrefix = "multi-clause-failed/"
			}
			if wantErr != "" {
				env.Fault("not-representable:" + wantErr)
			}
			// failed: nothing may have changed
			if wantErr == "" && !fired {
				if len(m.idx) > 0 && !c21Safe(op) {
					// (known finding: a column-moving change on a table with a secondary index
					// may also be refused, the index addressing a position that is gone)
					env.ClassPrefix = "schema-change-with-index/"
				}
				env.Fail("representable-change-succeeds", "valid-alter-refused:"+op.kind+":"+clsKind(cls), "%q failed (%v); every existing value is representable after the change\nschema: %s\nrows: %s", op.sql, r.Err, beforeDesc, before)
				break
			}
			if got := readAll(s); got != before {
				env.Fail("failed-alter-no-effect", "data-changed-by-failed-alter:"+op.kind, "%q failed (%s) but the rows changed:\nbefore: %s\nafter:  %s", op.sql, cls, before, got)
				break
			}
			if got := readDescribe(s, beforeName); got != beforeDesc {
				env.Fail("failed-alter-no-effect", "schema-changed-by-failed-alter:"+op.kind, "%q failed (%s) but DESCRIBE changed:\nbefore: %s\nafter:  %s", op.sql, cls, beforeDesc, got)
				break
			}
			// the indexes are as they were, too: reads through them still agree with the table
			indexReads(s, fmt.Sprintf("after the failed %q", op.sql), "index-read-differs-after-failed-alter:"+op.kind, -1)
			continue
		}
		if wantErr != "" {
			got := readAll(s)
			env.Fail("unrepresentable-change-fails", "lossy-alter-accepted:"+op.kind+":"+wantErr, "%q succeeded although the model says it cannot be carried out on the data present (%s)\nrows before: %s\nrows after:  %s", op.sql, wantErr, before, got)
			break
		}
		if len(m.idx) > 0 && !c21Safe(op) {
			// known finding: from here on the table's secondary indexes may be broken
			env.ClassPrefix = "schema-change-with-index/"
		}
		*m = *next
		// both sessions see the new data and schema
		for _, o := range []*Sess{s1, s2} {
			if got := readAll(o); got != m.render() {
				env.Fail("data-preserved", "rows-differ-after-alter:"+op.kind, "after %q %s reads\n  %s\nthe model says\n  %s", op.sql, o.Name, got, m.render())
				break
			}
			got := readDescribe(o, m.name)
			if m.pk == "" {
				// without a primary key MySQL (and this engine) shows the first UNIQUE
				// index over NOT NULL columns as PRI
				got = strings.ReplaceAll(got, "|NO|PRI|", "|NO|UNI|")
			}
			if got != m.describe() {
				env.Fail("schema-reported", "describe-differs:"+op.kind, "after %q DESCRIBE (%s) shows\n  %s\nthe model says\n  %s", op.sql, o.Name, got, m.describe())
				break
			}
		}
		if !env.Failed() {
			if got := readInfoSchema(s, m.name); got != infoWant() {
				env.Fail("schema-reported", "information-schema-differs:"+op.kind, "after %q information_schema.columns shows\n  %s\nthe model says\n  %s", op.sql, got, infoWant())
				break
			}
		}
		// reads through every secondary index still find the rows
		indexReads(s, fmt.Sprintf("after %q", op.sql), "index-read-differs-after-alter:"+op.kind, -1)
		env.Nontrivial()
	}
}

var c21NameRe = regexp.MustCompile(`\b(id|[chrCHR][0-9]+|[iIrR]x[0-9]+)\b`)

// c21Disjoint: the two clauses name no column or index in common.
func c21Disjoint(a, b string) bool {
	seen := map[string]bool{}
	for _, n := range c21NameRe.FindAllString(a, -1) {
		seen[strings.ToLower(n)] = true
	}
	for _, n := range c21NameRe.FindAllString(b, -1) {
		if seen[strings.ToLower(n)] {
			return false
		}
	}
	return true
}

// c21Safe: operations that neither move, retype nor rename columns of a table.
func c21Safe(op *aOp) bool {
	if i := strings.Index(op.kind, "+"); i > 0 {
		parts := strings.SplitN(op.sql, ", ", 2)
		return c21Safe(&aOp{kind: op.kind[:i], sql: parts[0]}) && c21Safe(&aOp{kind: op.kind[i+1:], sql: parts[len(parts)-1]})
	}
	switch op.kind {
	case "add-index", "drop-index", "rename-table", "rename-index":
		return true
	case "add-column":
		return !strings.Contains(op.sql, " FIRST") && !strings.Contains(op.sql, " AFTER ")
	}
	return false
}

// Package sqlsim is World A: simulated SQL sessions against the real engine
// (parser, planbuilder, analyzer, memo, rowexec, memory backend) through the
// engine API, statement-granular interleaving chosen by the tape, injected
// row-edit faults behind verifhook.Fault, and reference models as oracles.
package sqlsim

import (
	"context"
	"errors"
	"fmt"
	"io"
	"runtime/debug"
	"sort"
	"strings"
	"sync/atomic"

	sqle "github.com/dolthub/go-mysql-server"
	"github.com/dolthub/go-mysql-server/memory"
	"github.com/dolthub/go-mysql-server/sql"
	"github.com/dolthub/go-mysql-server/sql/types"
	"github.com/dolthub/go-mysql-server/sql/variables"
	"github.com/dolthub/go-mysql-server/verifhook"

	"verif/sim/kernel"
)

// ErrInjected is the storage error injected at row-edit calls.
var ErrInjected = errors.New("verif: injected storage error")

// World is one engine with its sessions and fault state.
type World struct {
	Env     *kernel.Env
	Pro     *memory.DbProvider
	DB      *memory.Database
	Eng     *sqle.Engine
	nextID  uint32
	nextPid uint64

	// fault injection at memory.edit.*: when armed, the armAt-th edit call
	// (1-based, counted over calls matching armTable or all when "") fails.
	editCount int
	perTable  map[string]int
	armAt     int
	armTable  string
	fired     bool
	countAll  int
	// PermuteOrder lets the tape permute map-derived sequences (ordering seam).
	PermuteOrder bool
}

// NewWorld builds a fresh engine over an empty database "d".
func NewWorld(env *kernel.Env) *World {
	variables.InitSystemVariables()
	variables.InitStatusVariables()
	db := memory.NewDatabase("d")
	pro := memory.NewDBProvider(db)
	w := &World{Env: env, Pro: pro, DB: db, Eng: sqle.NewDefault(pro), perTable: map[string]int{}}
	w.rehook()
	return w
}

// rehook (re)installs this world's fault and ordering hooks.
func (w *World) rehook() {
	verifhook.FaultFn = w.faultFn
	// ordering seam: sequences derived from Go map iteration inside the engine
	// are sorted under the verif tag; with PermuteOrder the tape then permutes
	// them, so that the order is explored instead of being left to the runtime
	verifhook.OrderFn = func(n int, swap func(i, j int)) {
		if w.PermuteOrder && n > 1 {
			w.Env.T.Perm(n, swap)
			w.Env.Probe("map-order-permuted")
		}
	}
}

// Close detaches the hooks.
func (w *World) Close() {
	verifhook.FaultFn = nil
	verifhook.OrderFn = nil
	w.Eng.Close()
}

func (w *World) faultFn(site, table string) error {
	w.countAll++
	if w.armTable != "" && !strings.EqualFold(w.armTable, table) {
		return nil
	}
	w.editCount++
	w.perTable[strings.ToLower(table)]++
	if w.armAt > 0 && w.editCount == w.armAt && !w.fired {
		w.fired = true
		return ErrInjected
	}
	return nil
}

// ResetEditCount zeroes the edit counters and disarms.
func (w *World) ResetEditCount() {
	w.editCount, w.armAt, w.armTable, w.fired = 0, 0, "", false
	w.perTable = map[string]int{}
}

// Arm makes the k-th edit call (on table, or any when "") of the statements
// executed from now on fail with ErrInjected.
func (w *World) Arm(k int, table string) {
	w.editCount, w.armAt, w.armTable, w.fired = 0, k, table, false
	w.perTable = map[string]int{}
}

// EditCount is the number of (matching) edit calls since the last reset/arm.
func (w *World) EditCount() int { return w.editCount }

// PerTableEdits returns edit calls per table since the last reset/arm.
func (w *World) PerTableEdits() map[string]int { return w.perTable }

// Fired reports whether the armed fault fired.
func (w *World) Fired() bool { return w.fired }

// Sess is one simulated client session.
type Sess struct {
	W    *World
	ID   uint32
	S    *memory.Session
	Name string
}

// NewSession opens a session with current database d.
func (w *World) NewSession() *Sess {
	w.nextID++
	bs := sql.NewBaseSessionWithClientServer("sim:3306", sql.Client{Address: "client", User: "root"}, w.nextID)
	ms := memory.NewSession(bs, w.Pro)
	ms.SetCurrentDatabase("d")
	return &Sess{W: w, ID: w.nextID, S: ms, Name: fmt.Sprintf("s%d", w.nextID)}
}

// End closes the session the way the server does on disconnect.
func (s *Sess) End() {
	ctx := s.ctx()
	if tx := s.S.GetTransaction(); tx != nil {
		_ = s.S.Rollback(ctx, tx)
		s.S.SetTransaction(nil)
	}
	_, _ = s.W.Eng.LS.ReleaseAll(ctx)
	sql.SessionEnd(s.S)
}

func (s *Sess) ctx() *sql.Context {
	// (atomic: C36b runs sessions on real goroutines)
	pid := atomic.AddUint64(&s.W.nextPid, 1)
	return sql.NewContext(context.Background(), sql.WithSession(s.S), sql.WithPid(pid))
}

// Res is the outcome of one statement.
type Res struct {
	Err      error
	Schema   sql.Schema
	Rows     []sql.Row
	IsOk     bool
	Affected uint64
	InsertID uint64
	Info     string
	Warnings int
}

// Exec runs one statement like the server handler does: begin command, run
// through the engine, drain the iterator, close it.
func (s *Sess) Exec(q string) *Res {
	return s.exec(q, nil)
}

func (s *Sess) exec(q string, run func(ctx *sql.Context) (sql.Schema, sql.RowIter, error)) *Res {
	ctx := s.ctx()
	res := &Res{}
	if err := sql.SessionCommandBegin(s.S); err != nil {
		res.Err = err
		return res
	}
	defer sql.SessionCommandEnd(s.S)
	var sch sql.Schema
	var iter sql.RowIter
	var err error
	if run != nil {
		sch, iter, err = run(ctx)
	} else {
		sch, iter, _, err = s.W.Eng.Query(ctx, q)
	}
	if err != nil {
		res.Err = err
		return res
	}
	res.Schema = sch
	for {
		row, err := iter.Next(ctx)
		if err == io.EOF {
			break
		}
		if err != nil {
			res.Err = err
			break
		}
		res.Rows = append(res.Rows, row.Copy())
	}
	if cerr := iter.Close(ctx); cerr != nil && res.Err == nil {
		res.Err = cerr
	}
	if res.Err != nil {
		res.Rows = nil
		return res
	}
	if types.IsOkResultSchema(sch) && len(res.Rows) == 1 {
		if ok, isOk := res.Rows[0][0].(types.OkResult); isOk {
			res.IsOk = true
			res.Affected = ok.RowsAffected
			res.InsertID = ok.InsertID
			if ok.Info != nil {
				res.Info = ok.Info.String()
			}
		}
	}
	res.Warnings = int(ctx.WarningCount())
	return res
}

// ExecRecover is Exec, but a panic on the executing goroutine is returned as
// the name of the first go-mysql-server frame below the panic.
func (s *Sess) ExecRecover(q string) (res *Res, panicSite string) {
	defer func() {
		if r := recover(); r != nil {
			if hp, ok := r.(kernel.HarnessPanic); ok {
				panic(hp)
			}
			panicSite = kernel.PanicSite(string(debug.Stack()))
			res = &Res{Err: fmt.Errorf("panic: %v", r)}
		}
	}()
	return s.Exec(q), ""
}

// MustExec runs a set-up statement that has to succeed; failure is harness
// trouble unless the error is a recognised engine behaviour the caller
// handles, so it is returned.
func (s *Sess) MustExec(q string) *Res {
	r := s.Exec(q)
	if r.Err != nil {
		kernel.Harnessf("setup statement failed: %s: %v", q, r.Err)
	}
	return r
}

// FormatVal renders a value canonically for comparison and traces.
func FormatVal(v any) string {
	switch x := v.(type) {
	case nil:
		return "NULL"
	case string:
		return "'" + x + "'"
	case []byte:
		return "'" + string(x) + "'"
	case fmt.Stringer:
		return x.String()
	default:
		return fmt.Sprint(x)
	}
}

// FormatRow renders a row canonically.
func FormatRow(r sql.Row) string {
	parts := make([]string, len(r))
	for i, v := range r {
		parts[i] = FormatVal(v)
	}
	return "(" + strings.Join(parts, ",") + ")"
}

// FormatRows renders rows; sorted when ordered is false.
func FormatRows(rows []sql.Row, ordered bool) []string {
	out := make([]string, len(rows))
	for i, r := range rows {
		out[i] = FormatRow(r)
	}
	if !ordered {
		sort.Strings(out)
	}
	return out
}

// ErrClass maps an engine error to a coarse kind, compared with the model's.
func ErrClass(err error) string {
	if err == nil {
		return "ok"
	}
	if errors.Is(err, ErrInjected) || strings.Contains(err.Error(), "verif: injected storage error") {
		return "injected"
	}
	switch {
	case sql.ErrPrimaryKeyViolation.Is(err), sql.ErrUniqueKeyViolation.Is(err), sql.ErrDuplicateEntry.Is(err):
		return "duplicate-key"
	case sql.ErrInsertIntoNonNullableProvidedNull.Is(err), sql.ErrInsertIntoNonNullableDefaultNullColumn.Is(err):
		return "not-null"
	case sql.ErrCheckConstraintViolated.Is(err):
		return "check"
	case sql.ErrForeignKeyChildViolation.Is(err), sql.ErrForeignKeyParentViolation.Is(err):
		return "fk"
	case sql.ErrValueOutOfRange.Is(err), types.ErrLengthBeyondLimit.Is(err), sql.ErrInvalidValue.Is(err):
		return "out-of-range"
	case sql.ErrTableNotFound.Is(err):
		return "no-table"
	case sql.ErrLockDeadlock.Is(err):
		return "deadlock"
	}
	m := err.Error()
	switch {
	case strings.Contains(m, "duplicate primary key") || strings.Contains(m, "duplicate unique key") || strings.Contains(m, "Duplicate entry"):
		return "duplicate-key"
	case strings.Contains(m, "out of range") || strings.Contains(m, "too long") || strings.Contains(m, "too large"):
		return "out-of-range"
	case strings.Contains(m, "cannot be null") || strings.Contains(m, "non-nullable"):
		return "not-null"
	case strings.Contains(m, "Check constraint"):
		return "check"
	case strings.Contains(strings.ToLower(m), "foreign key"):
		return "fk"
	}
	return "other:" + firstWords(m, 6)
}

func firstWords(s string, n int) string {
	f := strings.Fields(s)
	if len(f) > n {
		f = f[:n]
	}
	return strings.Join(f, " ")
}

package sqlsim

import (
	"fmt"
	"sort"
	"strings"

	"verif/sim/kernel"
)

// C18: foreign keys. A generated foreign-key graph (chain, diamond, self
// reference, deep-update chain) with generated ON DELETE / ON UPDATE actions,
// a history of DML by two sessions on parents and children, storage errors
// injected into the edit calls of the cascades, and ALTER TABLE DROP / ADD
// FOREIGN KEY over existing data. After every statement: the engine's tables
// equal a reference model that applies the prescribed actions row by row, every
// non-NULL child key has a parent (checked directly on the rows read back),
// reads through the foreign-key indexes agree, and a failed statement (natural
// or injected) has no effect on any table.

type fkCol = *int64

func iv(v int64) fkCol { return &v }

func fkEq(a, b fkCol) bool {
	if a == nil || b == nil {
		return a == nil && b == nil
	}
	return *a == *b
}

func fkFmt(v fkCol) string {
	if v == nil {
		return "NULL"
	}
	return fmt.Sprint(*v)
}

type fkTable struct {
	name string
	cols []string // id, k, v, then fk columns
}

func (t *fkTable) col(name string) int {
	for i, c := range t.cols {
		if c == name {
			return i
		}
	}
	panic(kernel.HarnessPanic{Msg: "no column " + name})
}

type fkDef struct {
	name          string
	child, parent *fkTable
	col, pcol     string
	onDel, onUpd  string
	active        bool
}

func (f *fkDef) ddl() string {
	return fmt.Sprintf("CONSTRAINT %s FOREIGN KEY (%s) REFERENCES %s (%s) ON DELETE %s ON UPDATE %s", f.name, f.col, f.parent.name, f.pcol, f.onDel, f.onUpd)
}

type fkModel struct {
	tables []*fkTable
	fks    []*fkDef
	rows   map[string]map[int64][]fkCol
	// fkReverse: process the foreign keys of a table in reverse declaration order
	fkReverse bool
	// touchedTarget: a cascade changed or removed rows of the statement's own
	// target table (affected-row count is then not compared)
	steps int
	depth int
	notes map[string]bool
}

func (m *fkModel) note(n string) {
	if m.notes == nil {
		m.notes = map[string]bool{}
	}
	m.notes[n] = true
	if m.depth >= 1 {
		m.notes["multi-level"] = true
	}
}

func (m *fkModel) clone() *fkModel {
	c := &fkModel{tables: m.tables, fks: m.fks, rows: map[string]map[int64][]fkCol{}, fkReverse: m.fkReverse}
	for t, rs := range m.rows {
		c.rows[t] = map[int64][]fkCol{}
		for id, r := range rs {
			c.rows[t][id] = append([]fkCol(nil), r...)
		}
	}
	return c
}

func (m *fkModel) ids(t string) []int64 {
	var out []int64
	for id := range m.rows[t] {
		out = append(out, id)
	}
	sort.Slice(out, func(i, j int) bool { return out[i] < out[j] })
	return out
}

func (m *fkModel) fkList() []*fkDef {
	if !m.fkReverse {
		return m.fks
	}
	out := make([]*fkDef, len(m.fks))
	for i, f := range m.fks {
		out[len(m.fks)-1-i] = f
	}
	return out
}

type fkErr struct{ kind, what string }

func (e *fkErr) Error() string { return e.kind + ": " + e.what }

// findBy returns the ids of the rows of t whose column c equals v (non-NULL).
func (m *fkModel) findBy(t *fkTable, c string, v fkCol) []int64 {
	if v == nil {
		return nil
	}
	ci := t.col(c)
	var out []int64
	for _, id := range m.ids(t.name) {
		if r := m.rows[t.name][id]; r[ci] != nil && *r[ci] == *v {
			out = append(out, id)
		}
	}
	return out
}

func (m *fkModel) uniqueOK(t *fkTable, self int64, has bool, r []fkCol) *fkErr {
	for id, o := range m.rows[t.name] {
		if has && id == self {
			continue
		}
		if *o[0] == *r[0] {
			return &fkErr{"duplicate-key", fmt.Sprintf("%s.id = %d", t.name, *r[0])}
		}
		if o[1] != nil && r[1] != nil && *o[1] == *r[1] {
			return &fkErr{"duplicate-key", fmt.Sprintf("%s.k = %d", t.name, *r[1])}
		}
	}
	return nil
}

func (m *fkModel) insertRow(t *fkTable, r []fkCol) *fkErr {
	if r[0] == nil || r[1] == nil {
		return &fkErr{"not-null", t.name}
	}
	dup := m.uniqueOK(t, 0, false, r)
	for _, f := range m.fkList() {
		if f.active && f.child == t {
			v := r[t.col(f.col)]
			if v != nil && len(m.findBy(f.parent, f.pcol, v)) == 0 {
				e := &fkErr{"fk", fmt.Sprintf("%s: no %s.%s = %d", f.name, f.parent.name, f.pcol, *v)}
				if dup != nil {
					// wrong in two ways: which one is reported is not prescribed
					e.kind = "duplicate-key|fk"
				}
				return e
			}
		}
	}
	if dup != nil {
		return dup
	}
	m.rows[t.name][*r[0]] = append([]fkCol(nil), r...)
	return nil
}

func (m *fkModel) deleteRow(t *fkTable, id int64) *fkErr {
	r, ok := m.rows[t.name][id]
	if !ok {
		return nil
	}
	m.steps++
	delete(m.rows[t.name], id)
	for _, f := range m.fkList() {
		if !f.active || f.parent != t {
			continue
		}
		v := r[t.col(f.pcol)]
		kids := m.findBy(f.child, f.col, v)
		if len(kids) == 0 {
			continue
		}
		switch f.onDel {
		case "RESTRICT", "NO ACTION":
			return &fkErr{"fk", fmt.Sprintf("%s: %s.%s = %d is referenced", f.name, t.name, f.pcol, *v)}
		case "CASCADE":
			m.note("cascade-delete")
			m.depth++
			for _, cid := range kids {
				if e := m.deleteRow(f.child, cid); e != nil {
					return e
				}
			}
			m.depth--
		case "SET NULL":
			m.note("set-null-on-delete")
			m.depth++
			for _, cid := range kids {
				if e := m.updateRow(f.child, cid, map[string]fkCol{f.col: nil}); e != nil {
					return e
				}
			}
			m.depth--
		}
	}
	return nil
}

// updateRow applies changes to one row; reports through changed whether the
// row differs afterwards.
func (m *fkModel) updateRow(t *fkTable, id int64, ch map[string]fkCol) *fkErr {
	_, e := m.updateRow2(t, id, ch)
	return e
}

func (m *fkModel) updateRow2(t *fkTable, id int64, ch map[string]fkCol) (bool, *fkErr) {
	old, ok := m.rows[t.name][id]
	if !ok {
		return false, nil
	}
	nw := append([]fkCol(nil), old...)
	changed := false
	for c, v := range ch {
		ci := t.col(c)
		if !fkEq(nw[ci], v) {
			changed = true
		}
		nw[ci] = v
	}
	if !changed {
		return false, nil
	}
	m.steps++
	if nw[0] == nil || nw[1] == nil {
		return false, &fkErr{"not-null", t.name}
	}
	dup := m.uniqueOK(t, id, true, nw)
	for _, f := range m.fkList() {
		if f.active && f.child == t {
			ci := t.col(f.col)
			if !fkEq(old[ci], nw[ci]) && nw[ci] != nil && len(m.findBy(f.parent, f.pcol, nw[ci])) == 0 {
				e := &fkErr{"fk", fmt.Sprintf("%s: no %s.%s = %d", f.name, f.parent.name, f.pcol, *nw[ci])}
				if dup != nil {
					e.kind = "duplicate-key|fk"
				}
				return false, e
			}
		}
	}
	if dup != nil {
		// a duplicate that would also be refused by a RESTRICT child: either error
		for _, f := range m.fkList() {
			if f.active && f.parent == t {
				pi := t.col(f.pcol)
				if !fkEq(old[pi], nw[pi]) && len(m.findBy(f.child, f.col, old[pi])) > 0 && (f.onUpd == "RESTRICT" || f.onUpd == "NO ACTION") {
					dup.kind = "duplicate-key|fk"
				}
			}
		}
		return false, dup
	}
	delete(m.rows[t.name], id)
	m.rows[t.name][*nw[0]] = nw
	for _, f := range m.fkList() {
		if !f.active || f.parent != t {
			continue
		}
		pi := t.col(f.pcol)
		if fkEq(old[pi], nw[pi]) {
			continue
		}
		kids := m.findBy(f.child, f.col, old[pi])
		if len(kids) == 0 {
			continue
		}
		switch f.onUpd {
		case "RESTRICT", "NO ACTION":
			return false, &fkErr{"fk", fmt.Sprintf("%s: %s.%s = %d is referenced", f.name, t.name, f.pcol, *old[pi])}
		case "CASCADE":
			m.note("cascade-update")
			m.depth++
			for _, cid := range kids {
				if e := m.updateRow(f.child, cid, map[string]fkCol{f.col: nw[pi]}); e != nil {
					return false, e
				}
			}
			m.depth--
		case "SET NULL":
			m.note("set-null-on-update")
			m.depth++
			for _, cid := range kids {
				if e := m.updateRow(f.child, cid, map[string]fkCol{f.col: nil}); e != nil {
					return false, e
				}
			}
			m.depth--
		}
	}
	return true, nil
}

// orphans lists the violations of referential integrity in the given rows.
func (m *fkModel) orphans() []string {
	var out []string
	for _, f := range m.fks {
		if !f.active {
			continue
		}
		ci := f.child.col(f.col)
		for _, id := range m.ids(f.child.name) {
			v := m.rows[f.child.name][id][ci]
			if v != nil && len(m.findBy(f.parent, f.pcol, v)) == 0 {
				out = append(out, fmt.Sprintf("%s.%s = %d (row id %d) has no %s.%s", f.child.name, f.col, *v, id, f.parent.name, f.pcol))
			}
		}
	}
	return out
}

func (m *fkModel) render(t *fkTable) string {
	var parts []string
	for _, id := range m.ids(t.name) {
		r := m.rows[t.name][id]
		s := make([]string, len(r))
		for i, v := range r {
			s[i] = fkFmt(v)
		}
		parts = append(parts, "("+strings.Join(s, ",")+")")
	}
	return strings.Join(parts, " ")
}

func (m *fkModel) renderAll() string {
	var parts []string
	for _, t := range m.tables {
		parts = append(parts, t.name+": "+m.render(t))
	}
	return strings.Join(parts, " | ")
}

// ---- statements ----

type fkStmt struct {
	kind  string // insert, update, delete
	t     *fkTable
	rows  [][]fkCol         // insert
	where string            // "", "id = c", "id IN (..)", "v < c"
	ids   func(m *fkModel) []int64 // target rows of update/delete, ascending
	set   map[string]fkCol  // update: constant assignments
	addK  int64             // update: k = k + addK (0 = none)
	sql   string
}

// apply runs the statement on m in the given row order; returns affected rows.
func (s *fkStmt) apply(m *fkModel, desc bool) (int, *fkErr) {
	n := 0
	switch s.kind {
	case "insert":
		for _, r := range s.rows {
			if e := m.insertRow(s.t, r); e != nil {
				return 0, e
			}
			n++
		}
	default:
		ids := s.ids(m)
		if desc {
			for i, j := 0, len(ids)-1; i < j; i, j = i+1, j-1 {
				ids[i], ids[j] = ids[j], ids[i]
			}
		}
		for _, id := range ids {
			r, ok := m.rows[s.t.name][id]
			if !ok {
				continue // removed by a cascade of an earlier row
			}
			if s.kind == "delete" {
				if e := m.deleteRow(s.t, id); e != nil {
					return 0, e
				}
				n++
				continue
			}
			ch := map[string]fkCol{}
			for c, v := range s.set {
				ch[c] = v
			}
			if s.addK != 0 {
				ch["k"] = iv(*r[1] + s.addK)
			}
			changed, e := m.updateRow2(s.t, id, ch)
			if e != nil {
				return 0, e
			}
			if changed {
				n++
			}
		}
	}
	return n, nil
}

type fkOutcome struct {
	err      string // "" ok, else kind
	affected int
	state    string
	model    *fkModel
	notes    map[string]bool // of a failed evaluation
}

// outcomes evaluates the statement under both row orders and both foreign-key
// processing orders and returns the distinct outcomes.
func (s *fkStmt) outcomes(m *fkModel) []fkOutcome {
	var out []fkOutcome
	seen := map[string]bool{}
	if s.kind == "delete" && s.where == "" {
		// DELETE without WHERE on a table referenced only by itself: removing every
		// row at once cannot leave an orphan; the engine does this as a truncation
		// (statement-end check), MySQL checks row by row. Both are accepted.
		onlySelf, self := true, false
		for _, f := range m.fks {
			if f.active && f.parent == s.t {
				if f.child == s.t {
					self = true
				} else {
					onlySelf = false
				}
			}
		}
		if self && onlySelf {
			c := m.clone()
			n := len(c.rows[s.t.name])
			c.rows[s.t.name] = map[int64][]fkCol{}
			o := fkOutcome{affected: n, model: c, state: c.renderAll()}
			seen[fmt.Sprintf("%s/%d/%s", o.err, o.affected, o.state)] = true
			out = append(out, o)
		}
	}
	for _, desc := range []bool{false, true} {
		for _, rev := range []bool{false, true} {
			c := m.clone()
			c.fkReverse = rev
			n, e := s.apply(c, desc)
			o := fkOutcome{affected: n, model: c}
			if e != nil {
				o.err = e.kind
				o.notes = c.notes
				o.model = m.clone()
				o.affected = 0
			}
			o.model.fkReverse = false
			o.state = o.model.renderAll()
			key := fmt.Sprintf("%s/%d/%s", o.err, o.affected, o.state)
			if !seen[key] {
				seen[key] = true
				out = append(out, o)
			}
		}
	}
	return out
}

func checkC18(env *kernel.Env) {
	T := env.T
	w := NewWorld(env)
	defer w.Close()
	sessions := []*Sess{w.NewSession(), w.NewSession()}
	s1 := sessions[0]
	actions := []string{"RESTRICT", "NO ACTION", "CASCADE", "SET NULL"}
	act := func(allowWrite bool) string {
		if !allowWrite {
			return actions[T.Draw(2)]
		}
		return actions[T.Pick(1, 1, 3, 2)]
	}
	m := &fkModel{rows: map[string]map[int64][]fkCol{}}
	mk := func(name string, fkcols ...string) *fkTable {
		t := &fkTable{name: name, cols: append([]string{"id", "k", "v"}, fkcols...)}
		m.tables = append(m.tables, t)
		m.rows[name] = map[int64][]fkCol{}
		return t
	}
	pcolOf := func() string { return []string{"id", "k"}[T.Draw(2)] }
	shape := []string{"chain", "diamond", "self", "deep"}[T.Draw(4)]
	env.Kind("shape:" + shape)
	switch shape {
	case "chain":
		n := T.Range(2, 4)
		var prev *fkTable
		for i := 1; i <= n; i++ {
			if prev == nil {
				prev = mk("t1")
				continue
			}
			t := mk(fmt.Sprintf("t%d", i), "p")
			m.fks = append(m.fks, &fkDef{name: fmt.Sprintf("fk%d", i), child: t, parent: prev, col: "p", pcol: pcolOf(), onDel: act(true), onUpd: act(true), active: true})
			prev = t
		}
	case "diamond":
		t1, t2, t3 := mk("t1"), mk("t2", "p"), mk("t3", "p")
		t4 := mk("t4", "p", "q")
		// a table reachable over two paths: ON UPDATE stays RESTRICT / NO ACTION
		// below the top (MySQL treats a cascade reaching one table twice specially)
		m.fks = append(m.fks,
			&fkDef{name: "fk2", child: t2, parent: t1, col: "p", pcol: pcolOf(), onDel: act(true), onUpd: act(true), active: true},
			&fkDef{name: "fk3", child: t3, parent: t1, col: "p", pcol: pcolOf(), onDel: act(true), onUpd: act(true), active: true},
			&fkDef{name: "fk4p", child: t4, parent: t2, col: "p", pcol: "id", onDel: act(true), onUpd: act(false), active: true},
			&fkDef{name: "fk4q", child: t4, parent: t3, col: "q", pcol: "id", onDel: act(true), onUpd: act(false), active: true})
	case "self":
		t1 := mk("t1", "p")
		// self reference: ON UPDATE CASCADE / SET NULL on the same table acts like
		// RESTRICT in MySQL; only RESTRICT / NO ACTION are generated for it
		m.fks = append(m.fks, &fkDef{name: "fks", child: t1, parent: t1, col: "p", pcol: "id", onDel: act(true), onUpd: act(false), active: true})
		if T.Bool(1, 2) {
			t2 := mk("t2", "p")
			m.fks = append(m.fks, &fkDef{name: "fk2", child: t2, parent: t1, col: "p", pcol: pcolOf(), onDel: act(true), onUpd: act(true), active: true})
		}
	case "deep":
		// k of each level references k of the level above: multi-level ON UPDATE CASCADE
		n := T.Range(2, 4)
		var prev *fkTable
		for i := 1; i <= n; i++ {
			t := mk(fmt.Sprintf("t%d", i))
			if prev != nil {
				a := []string{"CASCADE", "CASCADE", "RESTRICT", "NO ACTION"}
				m.fks = append(m.fks, &fkDef{name: fmt.Sprintf("fk%d", i), child: t, parent: prev, col: "k", pcol: "k", onDel: a[T.Draw(4)], onUpd: a[T.Draw(4)], active: true})
			}
			prev = t
		}
	}
	for _, t := range m.tables {
		var defs []string
		defs = append(defs, "id INT PRIMARY KEY", "k INT NOT NULL", "v INT")
		for _, c := range t.cols[3:] {
			defs = append(defs, c+" INT")
		}
		defs = append(defs, "UNIQUE KEY uk (k)")
		for _, f := range m.fks {
			if f.child == t {
				defs = append(defs, f.ddl())
			}
		}
		q := fmt.Sprintf("CREATE TABLE %s (%s)", t.name, strings.Join(defs, ", "))
		env.Logf("%s", q)
		s1.MustExec(q)
	}
	selfRef := func(t *fkTable) bool {
		for _, f := range m.fks {
			if f.child == t && f.parent == t {
				return true
			}
		}
		return false
	}
	// value pickers
	freshID := int64(0)
	nextFresh := func() int64 { freshID++; return freshID }
	pickRef := func(f *fkDef, exclude int64) fkCol {
		// mostly an existing parent value, sometimes NULL, sometimes a dangling value
		switch T.Pick(12, 2, 1) {
		case 1:
			if f.col == "k" {
				break // k is NOT NULL
			}
			return nil
		case 2:
			return iv(900 + int64(T.Draw(3)))
		}
		ids := m.ids(f.parent.name)
		var vals []int64
		pi := f.parent.col(f.pcol)
		for _, id := range ids {
			if f.parent == f.child && id == exclude {
				continue // a row referencing itself is not generated
			}
			if v := m.rows[f.parent.name][id][pi]; v != nil {
				vals = append(vals, *v)
			}
		}
		if len(vals) == 0 {
			if f.col == "k" {
				return iv(900)
			}
			return nil
		}
		return iv(vals[T.Draw(len(vals))])
	}
	genInsert := func(t *fkTable) *fkStmt {
		st := &fkStmt{kind: "insert", t: t}
		n := T.Pick(4, 2, 1) + 1
		var tuples []string
		for i := 0; i < n; i++ {
			id := nextFresh()
			if T.Bool(1, 14) {
				if ids := m.ids(t.name); len(ids) > 0 {
					id = ids[T.Draw(len(ids))] // planted duplicate
				}
			}
			r := make([]fkCol, len(t.cols))
			r[0], r[1], r[2] = iv(id), iv(100+id), iv(int64(T.Draw(10)))
			for _, f := range m.fks {
				if f.child == t {
					r[t.col(f.col)] = pickRef(f, id)
				}
			}
			st.rows = append(st.rows, r)
			s := make([]string, len(r))
			for j, v := range r {
				s[j] = fkFmt(v)
			}
			tuples = append(tuples, "("+strings.Join(s, ", ")+")")
		}
		st.sql = fmt.Sprintf("INSERT INTO %s (%s) VALUES %s", t.name, strings.Join(t.cols, ", "), strings.Join(tuples, ", "))
		return st
	}
	genWhere := func(st *fkStmt, single bool) {
		t := st.t
		ids := m.ids(t.name)
		mode := T.Pick(4, 2, 2, 1)
		if single {
			mode = 0
		}
		switch mode {
		case 0:
			c := int64(1)
			if len(ids) > 0 && T.Bool(7, 8) {
				c = ids[T.Draw(len(ids))]
			}
			st.where = fmt.Sprintf(" WHERE id = %d", c)
			st.ids = func(m *fkModel) []int64 {
				if _, ok := m.rows[t.name][c]; ok {
					return []int64{c}
				}
				return nil
			}
		case 1:
			var pick []int64
			for _, id := range ids {
				if T.Bool(1, 2) {
					pick = append(pick, id)
				}
			}
			if len(pick) == 0 {
				pick = []int64{1}
			}
			var s []string
			for _, id := range pick {
				s = append(s, fmt.Sprint(id))
			}
			st.where = fmt.Sprintf(" WHERE id IN (%s)", strings.Join(s, ", "))
			st.ids = func(m *fkModel) []int64 {
				var out []int64
				for _, id := range pick {
					if _, ok := m.rows[t.name][id]; ok {
						out = append(out, id)
					}
				}
				return out
			}
		case 2:
			c := int64(T.Range(1, 10))
			st.where = fmt.Sprintf(" WHERE v < %d", c)
			st.ids = func(m *fkModel) []int64 {
				var out []int64
				for _, id := range m.ids(t.name) {
					if v := m.rows[t.name][id][2]; v != nil && *v < c {
						out = append(out, id)
					}
				}
				return out
			}
		default:
			st.where = ""
			st.ids = func(m *fkModel) []int64 { return m.ids(t.name) }
		}
	}
	genDelete := func(t *fkTable) *fkStmt {
		st := &fkStmt{kind: "delete", t: t}
		genWhere(st, false)
		st.sql = fmt.Sprintf("DELETE FROM %s%s", t.name, st.where)
		return st
	}
	genUpdate := func(t *fkTable) *fkStmt {
		st := &fkStmt{kind: "update", t: t, set: map[string]fkCol{}}
		var fkcols []*fkDef
		for _, f := range m.fks {
			if f.child == t && f.col != "k" {
				fkcols = append(fkcols, f)
			}
		}
		mode := T.Pick(3, 3, 1, 1)
		if len(fkcols) == 0 && mode == 0 {
			mode = 1
		}
		var sets []string
		switch mode {
		case 0: // child side: re-point a foreign key column
			f := fkcols[T.Draw(len(fkcols))]
			genWhere(st, selfRef(t))
			excl := int64(-1)
			if selfRef(t) {
				if ids := st.ids(m); len(ids) == 1 {
					excl = ids[0]
				}
			}
			v := pickRef(f, excl)
			st.set[f.col] = v
			sets = append(sets, fmt.Sprintf("%s = %s", f.col, fkFmt(v)))
		case 1: // parent side: move the referenced unique column of the matching rows
			genWhere(st, false)
			freshID += 3
			st.addK = 1000 * freshID
			sets = append(sets, fmt.Sprintf("k = k + %d", st.addK))
		case 2: // parent side: change the primary key of one row
			genWhere(st, true)
			nid := nextFresh()
			if T.Bool(1, 10) {
				if ids := m.ids(t.name); len(ids) > 0 {
					nid = ids[T.Draw(len(ids))]
				}
			}
			st.set["id"] = iv(nid)
			sets = append(sets, fmt.Sprintf("id = %d", nid))
		default: // payload only: no foreign key work at all
			genWhere(st, false)
			v := iv(int64(T.Draw(10)))
			st.set["v"] = v
			sets = append(sets, fmt.Sprintf("v = %s", fkFmt(v)))
		}
		st.sql = fmt.Sprintf("UPDATE %s SET %s%s", t.name, strings.Join(sets, ", "), st.where)
		return st
	}
	readTable := func(s *Sess, t *fkTable) (string, map[int64][]fkCol) {
		r := s.Exec(fmt.Sprintf("SELECT %s FROM %s ORDER BY id", strings.Join(t.cols, ", "), t.name))
		if r.Err != nil {
			return "ERROR " + ErrClass(r.Err), nil
		}
		rows := map[int64][]fkCol{}
		var parts []string
		for _, row := range r.Rows {
			vals := make([]fkCol, len(row))
			s := make([]string, len(row))
			for i, v := range row {
				s[i] = FormatVal(v)
				if v != nil {
					var x int64
					fmt.Sscan(FormatVal(v), &x)
					vals[i] = iv(x)
				}
			}
			parts = append(parts, "("+strings.Join(s, ",")+")")
			if vals[0] != nil {
				rows[*vals[0]] = vals
			}
		}
		return strings.Join(parts, " "), rows
	}
	readAll := func(s *Sess) (string, *fkModel) {
		got := &fkModel{tables: m.tables, fks: m.fks, rows: map[string]map[int64][]fkCol{}}
		var parts []string
		for _, t := range m.tables {
			line, rows := readTable(s, t)
			parts = append(parts, t.name+": "+line)
			if rows == nil {
				rows = map[int64][]fkCol{}
			}
			got.rows[t.name] = rows
		}
		return strings.Join(parts, " | "), got
	}
	indexReads := func(s *Sess, step int, q string) {
		for _, f := range m.fks {
			// values present in the child column, plus one absent
			seen := map[int64]bool{}
			var vals []int64
			ci := f.child.col(f.col)
			for _, id := range m.ids(f.child.name) {
				if v := m.rows[f.child.name][id][ci]; v != nil && !seen[*v] {
					seen[*v] = true
					vals = append(vals, *v)
				}
			}
			vals = append(vals, 901)
			if len(vals) > 3 {
				k := T.Draw(len(vals) - 2)
				vals = vals[k : k+3]
			}
			for _, v := range vals {
				r := s.Exec(fmt.Sprintf("SELECT id FROM %s WHERE %s = %d ORDER BY id", f.child.name, f.col, v))
				want := fmt.Sprint(m.findBy(f.child, f.col, iv(v)))
				got := "ERROR " + ErrClass(r.Err)
				if r.Err == nil {
					var ids []int64
					for _, row := range r.Rows {
						var x int64
						fmt.Sscan(FormatVal(row[0]), &x)
						ids = append(ids, x)
					}
					got = fmt.Sprint(ids)
				}
				if got != want {
					env.Fail("fk-index-read", "fk-index-read-differs:"+f.onDel+"/"+f.onUpd, "step %d after %q: SELECT id FROM %s WHERE %s = %d returns %s, the table holds %s", step, q, f.child.name, f.col, v, got, want)
					return
				}
			}
		}
	}
	// ---- history ----
	steps := T.Range(6, 28)
	if env.Tier == "thorough" {
		steps = T.Range(6, 48)
	}
	faults := T.Bool(1, 2)
	// populate top-down first, so that the history meets referenced rows
	seedLeft := 0
	if T.Bool(5, 6) {
		seedLeft = len(m.tables) * T.Range(1, 3)
	}
	steps += seedLeft
	for step := 0; step < steps && !env.Failed(); step++ {
		s := sessions[T.Draw(2)]
		if seedLeft > 0 {
			t := m.tables[(len(m.tables)*3-seedLeft)%len(m.tables)]
			seedLeft--
			st := genInsert(t)
			outs := st.outcomes(m)
			before := m.renderAll()
			r, pan := s.ExecRecover(st.sql)
			if pan != "" {
				env.Fail("no-panic", "panic:"+pan, "%q panicked in %s", st.sql, pan)
				break
			}
			c18Judge(env, s, st, r, outs, m, before, readAll, step)
			if got, _ := readAll(s); got == outs[0].state {
				m.rows = outs[0].model.rows
			}
			continue
		}
		// occasionally drop a foreign key, and re-add it later over existing data
		if T.Bool(1, 12) && len(m.fks) > 0 {
			f := m.fks[T.Draw(len(m.fks))]
			if f.active {
				q := fmt.Sprintf("ALTER TABLE %s DROP FOREIGN KEY %s", f.child.name, f.name)
				r := s.Exec(q)
				env.Logf("%s: %s -> %s", s.Name, q, ErrClass(r.Err))
				env.Kind("drop-fk")
				if r.Err != nil {
					env.Fail("ddl-succeeds", "drop-foreign-key-failed", "%q failed: %v", q, r.Err)
					break
				}
				f.active = false
			} else {
				q := fmt.Sprintf("ALTER TABLE %s ADD %s", f.child.name, f.ddl())
				f.active = true
				bad := m.orphans()
				f.active = false
				r := s.Exec(q)
				env.Logf("%s: %s -> %s (model: %d orphan(s))", s.Name, q, ErrClass(r.Err), len(bad))
				env.Kind(fmt.Sprintf("add-fk:%v", len(bad) > 0))
				switch {
				case len(bad) > 0 && r.Err == nil:
					env.Fail("add-fk-validates-data", "add-foreign-key-over-orphans-accepted", "%q succeeded although %s", q, bad[0])
				case len(bad) == 0 && r.Err != nil:
					env.Fail("add-fk-validates-data", "add-foreign-key-refused", "%q failed (%v) although every child value has a parent", q, r.Err)
				case r.Err == nil:
					f.active = true
					env.Probe("fk-re-added")
				default:
					env.Probe("fk-add-refused-over-orphans")
				}
				if got, _ := readAll(s); got != m.renderAll() && !env.Failed() {
					env.Fail("ddl-keeps-data", "add-foreign-key-changed-data", "%q changed the data: %s, expected %s", q, got, m.renderAll())
				}
			}
			continue
		}
		t := m.tables[T.Draw(len(m.tables))]
		var st *fkStmt
		switch T.Pick(4, 3, 3) {
		case 0:
			st = genInsert(t)
		case 1:
			st = genUpdate(t)
		default:
			st = genDelete(t)
		}
		outs := st.outcomes(m)
		if len(outs) > 1 {
			env.Probe("order-dependent-outcome")
		}
		before := m.renderAll()
		// a storage error at a drawn edit call of the statement (cascades included)
		if faults && T.Bool(1, 3) {
			k := T.Pick(4, 3, 2, 1, 1) + 1
			w.Arm(k, "")
			r, pan := s.ExecRecover(st.sql)
			fired := w.Fired()
			w.ResetEditCount()
			if pan != "" {
				env.Fail("no-panic", "panic:"+pan, "%q with a storage error armed at edit call %d panicked in %s", st.sql, k, pan)
				break
			}
			if fired {
				env.Fault("edit-error:" + st.kind)
				env.Logf("%s: %s [storage error at edit call %d] -> %s", s.Name, st.sql, k, ErrClass(r.Err))
				env.Kind("fault:" + st.kind)
				if r.Err == nil {
					env.Fail("storage-error-fails-statement", "injected-error-swallowed:"+st.kind, "storage error injected at edit call %d of %q, but the statement reported success", k, st.sql)
					break
				}
				if got, _ := readAll(s); got != before {
					env.Fail("failed-statement-no-effect", "leftover-after-injected-error:"+st.kind, "%q failed with an injected storage error at edit call %d but the tables changed:\nbefore: %s\nafter:  %s", st.sql, k, before, got)
					break
				}
				indexReads(s, step, st.sql)
				continue
			}
			// not reached: the statement ran as if unarmed; fall through with r
			c18Judge(env, s, st, r, outs, m, before, readAll, step)
		} else {
			r, pan := s.ExecRecover(st.sql)
			if pan != "" {
				env.Fail("no-panic", "panic:"+pan, "%q panicked in %s", st.sql, pan)
				break
			}
			c18Judge(env, s, st, r, outs, m, before, readAll, step)
		}
		if env.Failed() {
			break
		}
		// adopt the state the engine is in (one of the legitimate outcomes)
		got, gm := readAll(s)
		for _, o := range outs {
			if o.state == got {
				m.rows = o.model.rows
				if o.err == "" {
					for _, n := range kernel.SortedKeys(o.model.notes) {
						env.Probe(n)
					}
				} else if len(o.notes) > 0 {
					env.Probe("failure-inside-cascade")
				}
				break
			}
		}
		_ = gm
		if bad := (&fkModel{tables: m.tables, fks: m.fks, rows: gm.rows}).orphans(); len(bad) > 0 {
			env.Fail("referential-integrity", "orphan-child-row", "step %d after %q: %s\nstate: %s", step, st.sql, bad[0], got)
			break
		}
		indexReads(s, step, st.sql)
		if len(m.fks) > 0 {
			env.Nontrivial()
		}
	}
}

func c18Judge(env *kernel.Env, s *Sess, st *fkStmt, r *Res, outs []fkOutcome, m *fkModel, before string, readAll func(*Sess) (string, *fkModel), step int) {
	cls := ErrClass(r.Err)
	got, _ := readAll(s)
	var wants []string
	for _, o := range outs {
		e := o.err
		if e == "" {
			e = "ok"
		}
		wants = append(wants, fmt.Sprintf("%s affected=%d", e, o.affected))
	}
	env.Logf("%s: %s -> %s affected=%d  [model: %s]", s.Name, st.sql, cls, r.Affected, strings.Join(wants, " or "))
	env.Kind(fmt.Sprintf("%s:%s", st.kind, clsKind(cls)))
	if r.Err != nil {
		env.Fault("natural-failure:" + clsKind(cls))
		if got != before {
			env.Fail("failed-statement-no-effect", "leftover-after-failure:"+st.kind+":"+clsKind(cls), "step %d: %q failed (%v) but the tables changed:\nbefore: %s\nafter:  %s", step, st.sql, r.Err, before, got)
			return
		}
	}
	for _, o := range outs {
		if o.state != got {
			continue
		}
		switch {
		case o.err == "" && r.Err != nil, o.err != "" && r.Err == nil:
			continue
		case o.err != "" && !kindIn(cls, o.err):
			continue
		}
		if o.err == "" && len(outs) == 1 && int(r.Affected) != o.affected && st.kind != "insert" {
			// cascades are not counted; rows of the target table itself are
			self := false
			for _, f := range m.fks {
				if f.child == st.t && f.parent == st.t {
					self = true
				}
			}
			if !self {
				env.Fail("affected-rows", "affected-rows-differ:"+st.kind, "step %d: %q reports %d affected row(s), the model %d", step, st.sql, r.Affected, o.affected)
			}
		}
		return
	}
	// no legitimate outcome matches
	o := outs[0]
	switch {
	case r.Err == nil && o.err != "" && len(outs) == 1:
		env.Fail("violating-statement-fails", "violation-accepted:"+st.kind+":"+o.err, "step %d: %q succeeded; the model says it must fail with %s\nstate: %s", step, st.sql, o.err, got)
	case r.Err != nil && o.err == "" && len(outs) == 1:
		env.Fail("valid-statement-succeeds", "valid-statement-refused:"+st.kind+":"+clsKind(cls), "step %d: %q failed (%v); the model says it is valid\nstate: %s", step, st.sql, r.Err, before)
	case r.Err != nil && len(outs) == 1 && !kindIn(cls, o.err):
		env.Fail("error-kind", "wrong-error-kind:"+o.err+"-vs-"+clsKind(cls), "step %d: %q failed with %v; the model expects a %s error", step, st.sql, r.Err, o.err)
	default:
		var alts []string
		for _, o := range outs {
			alts = append(alts, o.state)
		}
		env.Fail("actions-as-prescribed", "state-differs:"+st.kind, "step %d: after %q (%s) the tables are\n  %s\nthe model allows\n  %s", step, st.sql, cls, got, strings.Join(alts, "\n  "))
	}
}

// kindIn: cls is one of the alternatives "a|b" the model allows.
func kindIn(cls, alts string) bool {
	for _, a := range strings.Split(alts, "|") {
		if a == cls {
			return true
		}
	}
	return false
}

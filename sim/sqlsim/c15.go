package sqlsim

import (
	"fmt"
	"strings"

	"github.com/dolthub/go-mysql-server/sql"

	"verif/sim/kernel"
)

// C15: a failed data-modifying statement has no effect. For every generated
// statement the injected storage error is placed at EVERY row-edit call
// (k = 1, 2, ... until the statement runs through without the fault firing);
// after each failing execution the observable state (full scans of every
// table incl. child, audit and source tables, plus index-driven probes) must
// equal the state before. Natural failures are planted at drawn row
// positions.

type c15World struct {
	w       *World
	env     *kernel.Env
	t       *TableDef
	src     *TableDef
	child   *TableDef
	extra   []string
	tables  []*TableDef
	hasTrig bool
	writers bool
	sigCol  int
	// table t has a VIRTUAL generated column and a unique secondary key
	virtualUnique bool
}

func c15Setup(env *kernel.Env, w *World, s *Sess) *c15World {
	T := env.T
	cw := &c15World{w: w, env: env, sigCol: -1}
	opts := SchemaOpts{Keyless: true, Composite: true, Checks: true, Defaults: true, NotNull: true, StrPK: true, PrefixKeys: false,
		Generated: true, NoVirtual: env.Avoid("virtual-generated-dml"), AutoInc: false}
	cw.t = GenTable(T, "t", opts)
	for _, c := range cw.t.Cols {
		if c.GenFrom >= 0 && !c.Stored {
			for _, k := range cw.t.Keys {
				if k.Unique && !k.Primary {
					cw.virtualUnique = true
				}
			}
		}
	}
	s.MustExec(cw.t.DDL())
	if hasVirtual(cw.t) {
		env.ClassPrefix = "virtual-generated/"
	}
	cw.tables = append(cw.tables, cw.t)
	env.Logf("schema: %s", cw.t.DDL())
	if T.Bool(1, 3) {
		// source table for INSERT ... SELECT: same columns, no keys or checks
		u := &TableDef{Name: "u"}
		for _, c := range cw.t.Cols {
			if c.GenFrom >= 0 {
				continue
			}
			c.AutoInc, c.HasDef = false, false
			c.Nullable = true
			u.Cols = append(u.Cols, c)
		}
		s.MustExec(u.DDL())
		cw.src = u
		cw.tables = append(cw.tables, u)
	}
	pk := cw.t.PK()
	if pk != nil && len(pk.Cols) == 1 && cw.t.Cols[0].Kind == KInt && T.Bool(1, 2) {
		ch := &TableDef{Name: "ch", HasPK: true}
		cid := intCol("cid", "INT")
		cid.Nullable = false
		pid := intCol("pid", cw.t.Cols[0].SQLType)
		v := intCol("v", "INT")
		ch.Cols = []Col{cid, pid, v}
		ch.Keys = []Key{{Name: "PRIMARY", Cols: []int{0}, Unique: true, Primary: true}, {Name: "kp", Cols: []int{1}}}
		onDel := []string{"CASCADE", "SET NULL", "RESTRICT"}[T.Draw(3)]
		onUpd := []string{"CASCADE", "RESTRICT", "SET NULL"}[T.Draw(3)]
		ddl := strings.TrimSuffix(ch.DDL(), ")") + fmt.Sprintf(", CONSTRAINT fk1 FOREIGN KEY (`pid`) REFERENCES `t` (`id`) ON DELETE %s ON UPDATE %s)", onDel, onUpd)
		s.MustExec(ddl)
		env.Logf("schema: %s", ddl)
		cw.child = ch
		cw.tables = append(cw.tables, ch)
	}
	// triggers writing an audit table, and a conditional SIGNAL
	var intCols []int
	for i, c := range cw.t.Cols {
		if c.Kind == KInt && c.GenFrom < 0 {
			intCols = append(intCols, i)
		}
	}
	if len(intCols) >= 2 && T.Bool(1, 2) {
		k, v := cw.t.Cols[intCols[0]].Name, cw.t.Cols[intCols[1]].Name
		s.MustExec("CREATE TABLE audit (ev VARCHAR(8), k BIGINT, v BIGINT)")
		cw.extra = append(cw.extra, "audit")
		cw.hasTrig = true
		writers := !env.Avoid("trigger-statement-not-atomic")
		cw.writers = writers
		if writers && T.Bool(2, 3) {
			s.MustExec(fmt.Sprintf("CREATE TRIGGER tr_ai AFTER INSERT ON t FOR EACH ROW INSERT INTO audit VALUES ('ins', NEW.`%s`, NEW.`%s`)", k, v))
		}
		if writers && T.Bool(2, 3) {
			s.MustExec(fmt.Sprintf("CREATE TRIGGER tr_au AFTER UPDATE ON t FOR EACH ROW INSERT INTO audit VALUES ('upd', OLD.`%s`, NEW.`%s`)", k, v))
		}
		if writers && T.Bool(2, 3) {
			s.MustExec(fmt.Sprintf("CREATE TRIGGER tr_bd BEFORE DELETE ON t FOR EACH ROW INSERT INTO audit VALUES ('del', OLD.`%s`, OLD.`%s`)", k, v))
		}
		if T.Bool(1, 2) {
			cw.sigCol = intCols[1]
			s.MustExec(fmt.Sprintf("CREATE TRIGGER tr_bi BEFORE INSERT ON t FOR EACH ROW BEGIN IF NEW.`%s` = 7 THEN SIGNAL SQLSTATE '45000' SET MESSAGE_TEXT = 'seven'; END IF; END", v))
		}
		env.Logf("schema: audit table + triggers (signal on %s=7: %v)", v, cw.sigCol >= 0)
	}
	return cw
}

func checkC15(env *kernel.Env) {
	T := env.T
	w := NewWorld(env)
	defer w.Close()
	s1 := w.NewSession()
	cw := c15Setup(env, w, s1)
	var observer *Sess
	if T.Bool(1, 2) {
		observer = w.NewSession()
	}
	manual := T.Bool(1, 4)
	if manual {
		s1.MustExec("SET autocommit = 0")
		observer = nil // an observer sees only committed state; keep the run simple
	}
	env.Flag("manual-commit", manual)
	// initial data, row by row; natural failures are fine here
	seedRows := T.Range(0, 6)
	for i := 0; i < seedRows; i++ {
		st := GenStmt(T, cw.t, nil, GenOpts{MaxRows: 1, Kinds: []string{"insert"}, NoDefaultKw: true})
		r := s1.Exec(st.SQL())
		env.Logf("seed: %s -> %s", st.SQL(), ErrClass(r.Err))
		if cw.src != nil && T.Bool(1, 2) {
			st := GenStmt(T, cw.src, nil, GenOpts{MaxRows: 2, Kinds: []string{"insert"}})
			s1.Exec(st.SQL())
		}
	}
	if cw.child != nil {
		for i := 0; i < T.Range(0, 5); i++ {
			q := fmt.Sprintf("INSERT INTO ch VALUES (%d, %d, %d)", i+1, T.Draw(12), T.Draw(5))
			r := s1.Exec(q)
			env.Logf("seed: %s -> %s", q, ErrClass(r.Err))
		}
	}
	if manual {
		s1.MustExec("COMMIT")
	}
	nst := T.Range(1, 6)
	if env.Tier == "thorough" {
		nst = T.Range(1, 10)
	}
	kinds := []string{"insert", "insert", "replace", "odku", "update", "update", "delete"}
	if !env.Avoid("ignore-partial-insert") {
		kinds = append(kinds, "insert-ignore", "update-ignore")
	}
	if cw.src != nil {
		kinds = append(kinds, "insert-select")
	}
	for i := 0; i < nst && !env.Failed(); i++ {
		before, probes := s1.Snap(cw.tables, cw.extra, nil)
		var st *Stmt
		if cw.child != nil && T.Bool(1, 4) {
			st = GenStmt(T, cw.child, before.Rows["ch"], GenOpts{MaxRows: 3, Kinds: []string{"insert", "update", "delete"}, PlantFailure: true})
		} else {
			st = GenStmt(T, cw.t, before.Rows["t"], GenOpts{MaxRows: 6, Kinds: kinds, Src: cw.src, PlantFailure: true, AllowKeyUpd: true})
			if cw.sigCol >= 0 && len(st.Rows) > 0 && T.Bool(1, 3) {
				// plant the trigger's SIGNAL at a drawn row
				r := T.Draw(len(st.Rows))
				for p, ci := range st.Cols {
					if ci == cw.sigCol {
						st.Rows[r][p] = Expr{Kind: "const", C: int64(7)}
					}
				}
			}
		}
		q := st.SQL()
		env.Logf("stmt %d: %s", i, q)
		done := false
		for k := 1; k <= 80 && !done && !env.Failed(); k++ {
			w.Arm(k, "")
			res, pan := s1.ExecRecover(q)
			if pan != "" {
				cls := "panic:" + pan
				if cw.virtualUnique && st.Table == cw.t && (st.Kind == "replace" || st.Kind == "odku") {
					// REPLACE / ODKU meeting a unique-key conflict on a table with a
					// VIRTUAL generated column: see known finding
					cls = "panic-virtual-unique:" + st.Kind
				}
				env.Fail("no-panic", cls, "statement %q (edit-call fault armed at %d, fired=%v) panicked in %s", q, k, w.Fired(), pan)
				break
			}
			fired := w.Fired()
			edits := w.EditCount()
			w.ResetEditCount()
			cls := ErrClass(res.Err)
			env.Kind(fmt.Sprintf("%s:%s:%v", st.Kind, clsKind(cls), fired))
			if fired {
				env.Fault("edit-error:" + st.Kind)
				if res.Err == nil {
					env.Fail("storage-error-fails-statement", "injected-error-swallowed:"+st.Kind, "storage error injected at edit call %d of %q, but the statement reported success (affected=%d)", k, q, res.Affected)
					break
				}
			} else {
				done = true
				env.ProbeN("edit-calls-enumerated", edits)
				if res.Err != nil {
					env.Fault("natural-failure:" + clsKind(cls))
					if edits > 0 {
						env.Probe("natural-failure-after-edits")
					}
				}
			}
			if res.Err != nil {
				env.Logf("  k=%d fired=%v -> %s", k, fired, cls)
				c15Compare(env, s1, observer, cw, before, probes, st, q, k, fired, cls)
			} else {
				env.Logf("  k=%d ran through (%d edit calls): ok affected=%d", k, edits, res.Affected)
				if edits > 0 {
					env.Nontrivial()
				}
			}
		}
		if !done && !env.Failed() {
			env.Probe("enumeration-capped")
		}
		if manual && T.Bool(1, 3) {
			if T.Bool(1, 4) {
				s1.MustExec("ROLLBACK")
				env.Logf("ROLLBACK")
			} else {
				s1.MustExec("COMMIT")
				env.Logf("COMMIT")
			}
		}
	}
}

func clsKind(cls string) string {
	if strings.HasPrefix(cls, "other:") {
		return "other"
	}
	return cls
}

func c15Compare(env *kernel.Env, s1, observer *Sess, cw *c15World, before *Snapshot, probes []string, st *Stmt, q string, k int, fired bool, cls string) {
	after, _ := s1.Snap(cw.tables, cw.extra, probes)
	how := "natural:" + clsKind(cls)
	if fired {
		how = "injected"
	}
	if eq, diff := before.Equal(after); !eq {
		prefix := "leftover:"
		if cw.writers && st.Table == cw.t {
			// a statement on a table whose triggers write to another table:
			// atomicity then depends on savepoints, see known finding
			prefix = "leftover-trig:"
		}
		env.Fail("failed-statement-no-effect", prefix+st.Kind+":"+how+":"+diffTable(diff), "statement %q failed (%s, edit call %d) but the state changed: %s", q, cls, k, diff)
		return
	}
	if observer != nil {
		oafter, _ := observer.Snap(cw.tables, cw.extra, probes)
		if eq, diff := before.Equal(oafter); !eq {
			env.Fail("failed-statement-no-effect", "leftover-other-session:"+st.Kind+":"+how, "statement %q failed (%s, edit call %d) but another session sees a changed state: %s", q, cls, k, diff)
		}
	}
}

// diffTable names the table of the first differing snapshot line.
func diffTable(diff string) string {
	i := strings.Index(diff, "FROM `")
	if i < 0 {
		return "?"
	}
	rest := diff[i+6:]
	j := strings.Index(rest, "`")
	if j < 0 {
		return "?"
	}
	tbl := rest[:j]
	head := diff
	if a := strings.Index(diff, " => "); a >= 0 {
		head = diff[:a]
	}
	if strings.Contains(head, "WHERE") {
		return tbl + "-index"
	}
	return tbl
}

var _ = sql.Row{}

package sqlsim

import (
	"fmt"
	"sort"
	"strings"

	"github.com/dolthub/go-mysql-server/sql"

	"verif/sim/kernel"
)

// dmlCfg selects schema features, statement kinds and oracles of a DML
// history run. C13, C14, C16 and C19 are the same simulated history with
// different biases and different oracles switched on.
type dmlCfg struct {
	Check      string
	Schema     func(env *kernel.Env) SchemaOpts
	Kinds      []string
	FaultRate  int  // 1 in n statements gets an injected row-edit error (0 = never)
	ModelEq    bool // state, error kind and counts equal the reference model (C13)
	KeyInv     bool // no duplicate under the harness's own collation equality (C14)
	IndexReads bool // index-driven lookups = harness filter over the model (C16)
	ConstrInv  bool // CHECK / NOT NULL / generated / default invariants (C19)
	IndexDDL   bool // CREATE INDEX / DROP INDEX / TRUNCATE in the history (C16)
	MaxSteps   int
	// AvoidKinds returns statement kinds not to generate for table t in this
	// run (avoid-predicates of known findings).
	AvoidKinds func(env *kernel.Env, t *TableDef) map[string]bool
}

// ciAssignTag marks statements that assign a case-insensitive string column
// (known finding ci-case-only-update-ignored).
func ciAssignTag(st *Stmt) string {
	for _, a := range st.Set {
		c := st.Table.Cols[a.Col]
		if c.Kind == KStr && c.CI {
			return ":ci-assign"
		}
	}
	return ""
}

// hasVirtual: the table has a VIRTUAL generated column. The in-memory
// backend's handling of those has a family of defects (pending rows carry the
// virtual column, stored rows do not, and several code paths mix the two
// shapes); runs using them are matched as one known finding.
func hasVirtual(t *TableDef) bool {
	for _, c := range t.Cols {
		if c.GenFrom >= 0 && !c.Stored {
			return true
		}
	}
	return false
}

func hasGenerated(t *TableDef) bool {
	for _, c := range t.Cols {
		if c.GenFrom >= 0 {
			return true
		}
	}
	return false
}

// featureTag names the schema feature a disagreement involves, for
// structural matching of known findings.
func featureTag(t *TableDef, model, engine string) string {
	hasCIKey, hasPrefix, hasVirtual, hasStored, strPKn := false, false, false, false, 0
	for _, k := range t.Keys {
		if !k.Unique {
			continue
		}
		for i, ci := range k.Cols {
			if t.Cols[ci].Kind == KStr && t.Cols[ci].CI {
				hasCIKey = true
			}
			if k.Prefix != nil && k.Prefix[i] > 0 {
				hasPrefix = true
			}
			if k.Primary && t.Cols[ci].Kind == KStr {
				strPKn++
			}
		}
	}
	for _, c := range t.Cols {
		if c.GenFrom >= 0 {
			if c.Stored {
				hasStored = true
			} else {
				hasVirtual = true
			}
		}
	}
	hasCICol := false
	for _, c := range t.Cols {
		if c.Kind == KStr && c.CI {
			hasCICol = true
		}
	}
	dupSide := model == "duplicate-key" || engine == "duplicate-key"
	switch {
	case dupSide && hasCIKey:
		return "ci-unique-key"
	case dupSide && hasPrefix:
		return "prefix-unique-key"
	case dupSide && strPKn >= 2:
		return "composite-string-pk"
	case !t.HasPK && hasCICol:
		// rows that differ only in case under a case-insensitive collation are
		// confused by the keyless edit accumulator (known finding keyless-ci-row-identity)
		return "keyless-ci"
	case hasVirtual:
		return "virtual-generated"
	case hasStored:
		return "stored-generated"
	}
	return "plain"
}

func runDML(env *kernel.Env, cfg dmlCfg) {
	T := env.T
	w := NewWorld(env)
	defer w.Close()
	w.PermuteOrder = T.Bool(1, 3)
	nsess := T.Range(1, 3)
	var sess []*Sess
	for i := 0; i < nsess; i++ {
		sess = append(sess, w.NewSession())
	}
	t := GenTable(T, "t", cfg.Schema(env))
	sess[0].MustExec(t.DDL())
	env.Logf("schema: %s", t.DDL())
	if hasVirtual(t) {
		env.ClassPrefix = "virtual-generated/"
	}
	model := &MTable{Def: t}
	steps := T.Range(4, cfg.MaxSteps)
	if nsess >= 2 {
		env.Nontrivial()
	}
	kinds := cfg.Kinds
	if cfg.AvoidKinds != nil {
		skip := cfg.AvoidKinds(env, t)
		var k2 []string
		for _, k := range kinds {
			if !skip[k] {
				k2 = append(k2, k)
			}
		}
		kinds = k2
	}
	if !t.HasPK || len(t.Keys) > 1 {
		// ODKU on tables with more than one unique key (or none) is ambiguous or pointless
		var k2 []string
		multi := 0
		for _, k := range t.Keys {
			if k.Unique {
				multi++
			}
		}
		for _, k := range kinds {
			if k == "odku" && multi != 1 {
				continue
			}
			k2 = append(k2, k)
		}
		kinds = k2
	}
	extraIdx := 0
	for step := 0; step < steps && !env.Failed(); step++ {
		s := sess[T.Draw(nsess)]
		if cfg.IndexDDL && T.Bool(1, 8) {
			dmlIndexDDL(env, s, t, model, &extraIdx)
			if cfg.IndexReads && !env.Failed() {
				dmlIndexReads(env, sess[T.Draw(nsess)], t, model)
			}
			continue
		}
		cur := modelAsRows(model)
		st := GenStmt(T, t, cur, GenOpts{MaxRows: 5, Kinds: kinds, PlantFailure: true, AllowKeyUpd: T.Bool(1, 4)})
		if (st.Kind == "update" || st.Kind == "delete") && t.HasPK && T.Bool(1, 3) {
			st.OrderPK = 1
			if T.Bool(1, 2) {
				st.OrderPK = -1
			}
			if T.Bool(2, 3) {
				st.Limit = T.Range(0, 3)
			}
		}
		if (st.Kind == "update" || st.Kind == "odku") && env.Avoid("update-out-of-range-adjusted") {
			// avoid-predicate of the known finding: UPDATEs whose new value does
			// not fit the column are not generated in this run
			o := model.Clone().Apply(st)
			bad := o.Err == "out-of-range"
			for _, e := range o.ErrAlt {
				bad = bad || e == "out-of-range"
			}
			if bad {
				env.Probe("avoided-update-out-of-range")
				continue
			}
		}
		q := st.SQL()
		armed := false
		if cfg.FaultRate > 0 && T.Bool(1, cfg.FaultRate) && st.Kind != "insert-ignore" {
			w.Arm(T.Range(1, 3), "")
			armed = true
		}
		res, pan := s.ExecRecover(q)
		if pan != "" {
			cls := "panic:" + pan
			if featureTag(t, "", "") == "virtual-generated" {
				// the in-memory backend's handling of VIRTUAL generated columns has
				// several holes (known findings); keep them apart from other panics
				cls = "panic-virtual-generated:" + pan
			}
			env.Logf("%s: %s -> PANIC in %s", s.Name, q, pan)
			env.Fail("no-panic", cls, "statement %q panicked in %s", q, pan)
			break
		}
		fired := w.Fired()
		w.ResetEditCount()
		engCls := ErrClass(res.Err)
		env.Kind(st.Kind + ":" + clsKind(engCls))
		if fired {
			env.Fault("edit-error")
			env.Logf("%s: %s -> %s (injected at armed edit call)", s.Name, q, engCls)
			if res.Err == nil {
				env.Fail("storage-error-fails-statement", "injected-error-swallowed:"+st.Kind, "%s reported success although a storage error was injected", q)
				break
			}
			// model unchanged; fall through to state comparison
		} else {
			_ = armed
			pre := model.Clone()
			out := model.Apply(st)
			env.Logf("%s: %s -> engine %s affected=%d | model %s affected=%d", s.Name, q, engCls, res.Affected, orOK(out.Err), out.Affected)
			if out.Err != "" {
				model.Rows = pre.Rows
				env.Fault("natural-failure:" + string(out.Err))
			}
			if cfg.ModelEq || cfg.KeyInv {
				okKinds := map[string]bool{orOK(out.Err): true}
				for _, e := range out.ErrAlt {
					okKinds[orOK(e)] = true
				}
				if len(out.Alts) > 0 {
					okKinds["ok"] = true
				}
				if !okKinds[engCls] {
					tag := featureTag(t, orOK(out.Err), engCls)
					// a check that only decides key enforcement (C14) speaks up when a
					// duplicate was accepted or a non-duplicate was rejected as one;
					// two different failure kinds are not its business
					keyMatter := (out.Err == "duplicate-key" && engCls == "ok") || (engCls == "duplicate-key" && out.Err == "")
					modelLabel := orOK(out.Err)
					if okKinds["out-of-range"] {
						// some row's new value does not fit its column (whichever failure
						// the model met first): the label the known finding is matched by
						modelLabel = "out-of-range"
						keyMatter = false
					}
					if cfg.ModelEq || keyMatter {
						env.Fail("statement-outcome-equals-model", fmt.Sprintf("outcome:%s:model-%s:engine-%s:%s", st.Kind, modelLabel, clsKind(engCls), tag),
							"%s: model says %s, engine says %s (%v)", q, orOK(out.Err), engCls, res.Err)
						break
					}
					// not this check's business (C14 only decides key enforcement): resynchronise
					env.Probe("resync-after-foreign-disagreement")
					dmlResync(s, t, model)
					continue
				}
			}
			if res.Err == nil && cfg.ModelEq && !out.OrderDep {
				if !out.CountOpen && int64(res.Affected) != out.Affected {
					env.Fail("affected-rows-equal-model", "affected:"+st.Kind+ciAssignTag(st), "%s: engine reports %d affected rows, model %d", q, res.Affected, out.Affected)
					break
				}
				if st.Kind == "update" {
					want := fmt.Sprintf("Rows matched: %d  Changed: %d", out.Matched, out.Affected)
					if !strings.HasPrefix(res.Info, want) {
						env.Fail("matched-changed-equal-model", "update-info"+ciAssignTag(st), "%s: engine info %q, model %q", q, res.Info, want)
						break
					}
				}
			}
			if out.OrderDep {
				env.Probe("order-dependent-statement")
				// accept every legitimate outcome; adopt the one the engine chose
				if res.Err != nil {
					model.Rows = pre.Rows
				} else {
					got := strings.Join(FormatRows(s.Exec("SELECT * FROM `t`").Rows, false), "|")
					adopted := false
					for _, a := range out.Alts {
						if got == strings.Join(a.Render(), "|") {
							model.Rows = a.Rows
							adopted = true
							break
						}
					}
					if !adopted && len(out.Alts) > 0 {
						model.Rows = out.Alts[0].Rows
					}
				}
			}
		}
		// state comparison, from a drawn session (all autocommit: everybody sees the same)
		obs := sess[T.Draw(nsess)]
		r := obs.Exec("SELECT * FROM `t`")
		if r.Err != nil {
			env.Fail("read-succeeds", "read-error", "SELECT * FROM t failed: %v", r.Err)
			break
		}
		got := FormatRows(r.Rows, false)
		if cfg.ModelEq || cfg.IndexReads || cfg.ConstrInv {
			want := model.Render()
			if strings.Join(got, "|") != strings.Join(want, "|") {
				how := "after-success"
				if res.Err != nil {
					how = "after-failure"
				}
				if !cfg.ModelEq {
					// not the oracle of this check: resynchronise the model and go on
					env.Probe("resync-after-foreign-disagreement")
					dmlResync(s, t, model)
				} else {
					env.Fail("table-equals-model", "state:"+st.Kind+ciAssignTag(st)+":"+how+":"+featureTag(t, "", ""), "after %s (%s) table = %v, model = %v", q, engCls, got, want)
					break
				}
			}
		}
		if cfg.KeyInv {
			if !dmlKeyInvariant(env, t, r.Rows, q) {
				break
			}
			if !cfg.ModelEq {
				dmlResync(s, t, model)
			}
		}
		if cfg.ConstrInv && !dmlConstraintInvariant(env, t, r.Rows, q, st.Kind) {
			break
		}
		if cfg.IndexReads && (T.Bool(1, 2) || step == steps-1) {
			dmlIndexReads(env, obs, t, model)
		}
	}
}

func orOK(e rowErr) string {
	if e == "" {
		return "ok"
	}
	return string(e)
}

// modelAsRows gives the model rows in engine representation (for planting
// collisions in generated statements).
func modelAsRows(m *MTable) []sql.Row {
	out := make([]sql.Row, len(m.Rows))
	for i, r := range m.Rows {
		row := make(sql.Row, len(r))
		for j, v := range r {
			row[j] = v
		}
		out[i] = row
	}
	return out
}

// dmlResync replaces the model's rows by the engine's (used by checks whose
// oracle is an invariant, after a disagreement that is another check's business).
func dmlResync(s *Sess, t *TableDef, model *MTable) {
	r := s.Exec("SELECT * FROM `t`")
	if r.Err != nil {
		return
	}
	model.Rows = nil
	for _, row := range r.Rows {
		mr := make(MRow, len(row))
		for i, v := range row {
			mr[i] = toVal(v)
		}
		model.Rows = append(model.Rows, mr)
	}
}

// dmlKeyInvariant: no two observed rows are equal on a unique key under the
// harness's own collation equality.
func dmlKeyInvariant(env *kernel.Env, t *TableDef, rows []sql.Row, q string) bool {
	mrows := make([]MRow, len(rows))
	for i, row := range rows {
		mr := make(MRow, len(row))
		for j, v := range row {
			mr[j] = toVal(v)
		}
		mrows[i] = mr
	}
	for ki := range t.Keys {
		k := &t.Keys[ki]
		if !k.Unique {
			continue
		}
		for i := 0; i < len(mrows); i++ {
			for j := i + 1; j < len(mrows); j++ {
				if keyEqual(t, k, mrows[i], mrows[j]) {
					tag := "plain"
					for x, ci := range k.Cols {
						if t.Cols[ci].Kind == KStr && t.Cols[ci].CI {
							tag = "ci-unique-key"
						} else if k.Prefix != nil && k.Prefix[x] > 0 && tag == "plain" {
							tag = "prefix-unique-key"
						}
					}
					env.Fail("no-duplicate-keys", "dup-in-table:"+tag, "after %s the table holds two rows equal on key %s: %s and %s", q, k.Name, FormatRow(rows[i]), FormatRow(rows[j]))
					return false
				}
			}
		}
	}
	return true
}

// dmlConstraintInvariant: on the observed rows no CHECK is FALSE, NOT NULL
// columns hold no NULL, generated columns equal their expression.
func dmlConstraintInvariant(env *kernel.Env, t *TableDef, rows []sql.Row, q, stKind string) bool {
	for _, row := range rows {
		mr := make(MRow, len(row))
		for j, v := range row {
			mr[j] = toVal(v)
		}
		for i, c := range t.Cols {
			if !c.Nullable && c.GenFrom < 0 && mr[i] == nil {
				env.Fail("not-null-holds", "null-in-not-null", "after %s row %s has NULL in NOT NULL column %s", q, FormatRow(row), c.Name)
				return false
			}
			if c.GenFrom >= 0 {
				var want Val
				if src := mr[c.GenFrom]; src != nil {
					want = src.(int64) + 1
				}
				if want != mr[i] {
					kind := "virtual"
					if c.Stored {
						kind = "stored"
					}
					env.Fail("generated-column-holds", "generated-wrong:"+kind+":"+stKind, "after %s row %s: generated column %s should be %v", q, FormatRow(row), c.Name, renderVal(want))
					return false
				}
			}
		}
		for _, ck := range t.Checks {
			if evalCheck(t, ck, mr) == tFalse {
				tag := "plain"
				for _, c := range t.Cols {
					if c.GenFrom >= 0 {
						tag = "with-generated-column"
					}
				}
				env.Fail("check-holds", "check-false:"+tag+":"+stKind, "after %s row %s violates CHECK (%s)", q, FormatRow(row), ck.SQL(t))
				return false
			}
		}
	}
	return true
}

// dmlIndexReads: for every index, lookups derived from the model's data must
// return exactly the model's rows satisfying the lookup.
func dmlIndexReads(env *kernel.Env, s *Sess, t *TableDef, model *MTable) {
	T := env.T
	for ki := range t.Keys {
		k := &t.Keys[ki]
		ci := k.Cols[0]
		c := &t.Cols[ci]
		var preds []*Pred
		seen := map[string]bool{}
		for _, r := range model.Rows {
			if r[ci] == nil {
				continue
			}
			key := renderVal(r[ci])
			if !seen[key] && len(preds) < 4 {
				seen[key] = true
				preds = append(preds, &Pred{Kind: "cmp", Col: ci, Op: "=", C: r[ci]})
			}
		}
		preds = append(preds, &Pred{Kind: "cmp", Col: ci, Op: "=", C: GenVal(T, c, false)})
		preds = append(preds, &Pred{Kind: "cmp", Col: ci, Op: []string{">", "<=", ">=", "<"}[T.Draw(4)], C: GenVal(T, c, false)})
		if c.Nullable {
			preds = append(preds, &Pred{Kind: "isnull", Col: ci})
		}
		if len(k.Cols) > 1 && len(model.Rows) > 0 {
			r := model.Rows[T.Draw(len(model.Rows))]
			if r[k.Cols[0]] != nil && r[k.Cols[1]] != nil {
				preds = append(preds, &Pred{Kind: "and", L: &Pred{Kind: "cmp", Col: k.Cols[0], Op: "=", C: r[k.Cols[0]]}, R: &Pred{Kind: "cmp", Col: k.Cols[1], Op: "=", C: r[k.Cols[1]]}})
			}
		}
		if len(k.Cols) > 1 && t.Cols[k.Cols[0]].Kind == KInt && t.Cols[k.Cols[1]].Kind == KInt && k.Prefix == nil {
			// two boxes over the first two key columns that overlap in both: the ranges built
			// for the OR have to cover exactly their union
			box := func(ci int) (lo1, hi1, lo2, hi2 Val) {
				var v []int64
				for len(v) < 4 {
					if x, ok := GenVal(T, &t.Cols[ci], false).(int64); ok {
						v = append(v, x)
					} else {
						v = append(v, int64(len(v)))
					}
				}
				sort.Slice(v, func(i, j int) bool { return v[i] < v[j] })
				return v[0], v[2], v[1], v[3]
			}
			between := func(ci int, lo, hi Val) *Pred {
				return &Pred{Kind: "and", L: &Pred{Kind: "cmp", Col: ci, Op: ">=", C: lo}, R: &Pred{Kind: "cmp", Col: ci, Op: "<=", C: hi}}
			}
			a1, a2, a3, a4 := box(k.Cols[0])
			b1, b2, b3, b4 := box(k.Cols[1])
			preds = append(preds, &Pred{Kind: "or",
				L: &Pred{Kind: "and", L: between(k.Cols[0], a1, a2), R: between(k.Cols[1], b1, b2)},
				R: &Pred{Kind: "and", L: between(k.Cols[0], a3, a4), R: between(k.Cols[1], b3, b4)}})
		}
		for _, p := range preds {
			q := "SELECT * FROM `t` WHERE " + p.SQL(t)
			r := s.Exec(q)
			if r.Err != nil {
				env.Fail("read-succeeds", "read-error", "%s failed: %v", q, r.Err)
				return
			}
			got, want := FormatRows(r.Rows, false), model.Filter(p)
			usedIndex := false
			if T.Bool(1, 4) {
				if ex := s.Exec("EXPLAIN FORMAT=TREE " + q); ex.Err == nil {
					for _, row := range ex.Rows {
						if strings.Contains(fmt.Sprint(row[0]), "IndexedTableAccess") {
							usedIndex = true
						}
					}
				}
				if usedIndex {
					env.Probe("index-path-used")
				} else {
					env.Probe("index-path-not-used")
				}
			}
			if strings.Join(got, "|") != strings.Join(want, "|") {
				tag := "plain"
				if c.Kind == KStr && c.CI {
					tag = "ci-column"
				} else if k.Prefix != nil {
					tag = "prefix-key"
				}
				env.Fail("index-lookup-equals-scan", "index-read:"+tag, "%s = %v, rows of the table satisfying it = %v", q, got, want)
				return
			}
		}
	}
}

// dmlIndexDDL creates / drops a secondary index or truncates the table.
func dmlIndexDDL(env *kernel.Env, s *Sess, t *TableDef, model *MTable, n *int) {
	T := env.T
	switch T.Pick(3, 2, 1) {
	case 0:
		// CREATE INDEX on a payload column
		cands := t.InsertableCols()
		ci := cands[T.Draw(len(cands))]
		*n++
		k := Key{Name: fmt.Sprintf("x%d", *n), Cols: []int{ci}}
		if T.Bool(1, 4) && len(cands) > 1 {
			c2 := cands[T.Draw(len(cands))]
			if c2 != ci {
				k.Cols = append(k.Cols, c2)
			}
		}
		var cols []string
		for _, c := range k.Cols {
			cols = append(cols, "`"+t.Cols[c].Name+"`")
		}
		q := fmt.Sprintf("CREATE INDEX `%s` ON `t` (%s)", k.Name, strings.Join(cols, ","))
		r := s.Exec(q)
		env.Kind("create-index")
		env.Logf("%s: %s -> %s", s.Name, q, ErrClass(r.Err))
		if r.Err == nil {
			t.Keys = append(t.Keys, k)
			env.Probe("index-created-on-existing-data")
		}
	case 1:
		// DROP a non-unique, non-primary index
		for i := len(t.Keys) - 1; i >= 0; i-- {
			if !t.Keys[i].Unique {
				q := fmt.Sprintf("DROP INDEX `%s` ON `t`", t.Keys[i].Name)
				r := s.Exec(q)
				env.Kind("drop-index")
				env.Logf("%s: %s -> %s", s.Name, q, ErrClass(r.Err))
				if r.Err == nil {
					t.Keys = append(t.Keys[:i], t.Keys[i+1:]...)
				}
				return
			}
		}
	case 2:
		r := s.Exec("TRUNCATE TABLE `t`")
		env.Kind("truncate")
		env.Logf("%s: TRUNCATE TABLE t -> %s", s.Name, ErrClass(r.Err))
		if r.Err == nil {
			model.Rows = nil
		}
	}
}

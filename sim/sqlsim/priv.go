package sqlsim

import (
	"errors"
	"fmt"
	"sort"
	"strings"
	"time"

	"github.com/dolthub/go-mysql-server/memory"
	"github.com/dolthub/go-mysql-server/sql"

	"verif/sim/kernel"
)

// C39 / C41: privilege checks against a privilege model, and persistence of
// accounts / roles / grants through a simulated persister ("simdisk") with
// injected Persist errors and crash points, followed by restarts into a fresh
// engine that loads only what was durable.

// simDisk implements mysql_db.MySQLDbPersistence with atomic-replace
// semantics (what a real integrator provides with write-temp-then-rename).
type simDisk struct {
	durable []byte
	// next-call fault: "" ok, "fail" (error, nothing replaced), "crash-before"
	// (process dies before the replace), "crash-after" (dies after it)
	next    string
	crashed bool
	calls   int
}

var errDiskFull = errors.New("verif: injected persist error (disk full)")
var errCrash = errors.New("verif: simulated crash during persist")

func (d *simDisk) Persist(ctx *sql.Context, data []byte) error {
	d.calls++
	mode := d.next
	d.next = ""
	switch mode {
	case "fail":
		return errDiskFull
	case "crash-before":
		d.crashed = true
		return errCrash
	case "crash-after":
		d.durable = append([]byte(nil), data...)
		d.crashed = true
		return errCrash
	}
	d.durable = append([]byte(nil), data...)
	return nil
}

type privLevel struct {
	global map[string]bool
	db     map[string]bool            // privileges on d.*
	table  map[string]map[string]bool // table -> privileges
}

func newPrivLevel() *privLevel {
	return &privLevel{global: map[string]bool{}, db: map[string]bool{}, table: map[string]map[string]bool{}}
}

func (p *privLevel) clone() *privLevel {
	q := newPrivLevel()
	for k := range p.global {
		q.global[k] = true
	}
	for k := range p.db {
		q.db[k] = true
	}
	for t, m := range p.table {
		q.table[t] = map[string]bool{}
		for k := range m {
			q.table[t][k] = true
		}
	}
	return q
}

func (p *privLevel) has(priv, table string) bool {
	// the engine's documented rule: "Super users have all privileges" (MySQL
	// itself does not let SUPER stand in for table privileges)
	return p.global["SUPER"] || p.global[priv] || p.db[priv] || (table != "" && p.table[table][priv])
}

// privModel: accounts (users and roles) with their privilege sets and the
// role edges. A role granted to a user is active (the engine activates every
// granted role, as MySQL does with activate_all_roles_on_login = ON).
type privModel struct {
	accts map[string]*privLevel // name -> privileges (users and roles)
	isRole map[string]bool
	edges map[string]map[string]bool // user -> roles
}

func (m *privModel) clone() *privModel {
	c := &privModel{accts: map[string]*privLevel{}, isRole: map[string]bool{}, edges: map[string]map[string]bool{}}
	for k, v := range m.accts {
		c.accts[k] = v.clone()
	}
	for k, v := range m.isRole {
		c.isRole[k] = v
	}
	for u, rs := range m.edges {
		c.edges[u] = map[string]bool{}
		for r := range rs {
			c.edges[u][r] = true
		}
	}
	return c
}

func (m *privModel) allowed(user, priv, table string) bool {
	a, ok := m.accts[user]
	if !ok || m.isRole[user] {
		return false
	}
	if a.has(priv, table) {
		return true
	}
	for r := range m.edges[user] {
		if ra, ok := m.accts[r]; ok && ra.has(priv, table) {
			return true
		}
	}
	return false
}

type privProbe struct {
	priv, table, sql string
	and              [2]string // a second privilege the statement needs (priv, table), if any
}

var privProbes = []privProbe{
	{priv: "EXECUTE", table: "p1()", sql: "CALL d.p1()"},
	{priv: "SELECT", table: "t3", sql: "SELECT * FROM d.t3 WHERE 1 = 0"},
	// (a view is read with the invoker's rights on the underlying table too: the engine has no persisted
	// definers yet - planbuilder "TODO: Once view definers are persisted, load the real definer client")
	{priv: "SELECT", table: "vw", sql: "SELECT * FROM d.vw WHERE 1 = 0", and: [2]string{"SELECT", "t3"}},
	{priv: "SELECT", table: "Tm", sql: "SELECT * FROM d.Tm WHERE 1 = 0"},
	{priv: "UPDATE", table: "Tm", sql: "UPDATE d.tm SET a = 1 WHERE 1 = 0"},
	{priv: "SELECT", table: "t1", sql: "SELECT * FROM d.t1 WHERE 1 = 0"},
	{priv: "SELECT", table: "t2", sql: "SELECT * FROM d.t2 WHERE 1 = 0"},
	{priv: "INSERT", table: "t1", sql: "INSERT INTO d.t1 (id) SELECT 1 FROM dual WHERE 1 = 0"},
	{priv: "UPDATE", table: "t1", sql: "UPDATE d.t1 SET a = 1 WHERE 1 = 0"},
	{priv: "DELETE", table: "t2", sql: "DELETE FROM d.t2 WHERE 1 = 0"},
	{priv: "DELETE", table: "t1", sql: "DELETE FROM d.t1 WHERE 1 = 0"},
}

// privHosts: the host part of every generated account of the current run
// ("localhost" or "%"); survives simulated restarts.
var privHosts map[string]string

func hostOf(name string) string {
	if h, ok := privHosts[name]; ok {
		return h
	}
	return "localhost"
}

type privWorld struct {
	w     *World
	disk  *simDisk
	root  *Sess
	users map[string]*Sess // long-lived sessions per user
}

func isDenied(err error) bool {
	if err == nil {
		return false
	}
	return sql.ErrPrivilegeCheckFailed.Is(err) || sql.ErrTableAccessDeniedForUser.Is(err) || sql.ErrDatabaseAccessDeniedForUser.Is(err) ||
		strings.Contains(err.Error(), "denied")
}

func newPrivWorld(env *kernel.Env, disk *simDisk, load []byte) *privWorld {
	w := NewWorld(env)
	db := w.Eng.Analyzer.Catalog.MySQLDb
	db.SetPersister(disk)
	pw := &privWorld{w: w, disk: disk, users: map[string]*Sess{}}
	pw.root = pw.sessionFor("root")
	if load == nil {
		db.AddRootAccount()
	} else {
		if err := db.LoadData(pw.root.ctx(), load); err != nil {
			env.Fail("reload-succeeds", "load-data-failed", "LoadData of the durable blob failed: %v", err)
		}
		// the root superuser is ephemeral (never persisted): an integrator re-adds it
		db.AddRootAccount()
	}
	pw.root.MustExec("CREATE TABLE d.t1 (id INT PRIMARY KEY, a INT)")
	pw.root.MustExec("CREATE TABLE d.t2 (id INT PRIMARY KEY, b INT)")
	pw.root.MustExec("CREATE TABLE d.t3 (id INT PRIMARY KEY, c INT)")
	pw.root.MustExec("CREATE TABLE d.Tm (id INT PRIMARY KEY, a INT)")
	pw.root.MustExec("INSERT INTO d.t1 VALUES (1, 1), (2, 2)")
	pw.root.MustExec("INSERT INTO d.t2 VALUES (1, 1), (2, 2)")
	pw.root.MustExec("INSERT INTO d.t3 VALUES (1, 1)")
	pw.root.MustExec("CREATE PROCEDURE d.p1() SELECT 1")
	pw.root.MustExec("CREATE VIEW d.vw AS SELECT id FROM d.t3")
	pw.root.MustExec("CREATE DATABASE e")
	pw.root.MustExec("CREATE TABLE e.t1 (id INT PRIMARY KEY, a INT)")
	return pw
}

func (pw *privWorld) sessionFor(user string) *Sess {
	w := pw.w
	w.nextID++
	bs := sql.NewBaseSessionWithClientServer("sim:3306", sql.Client{Address: "localhost", User: user}, w.nextID)
	ms := memory.NewSession(bs, w.Pro)
	ms.SetCurrentDatabase("d")
	return &Sess{W: w, ID: w.nextID, S: ms, Name: user}
}

// grantsOf returns the sorted SHOW GRANTS lines of an account ("" lines when it does not exist).
func (pw *privWorld) grantsOf(name string) string {
	r := pw.root.Exec(fmt.Sprintf("SHOW GRANTS FOR '%s'@'%s'", name, hostOf(name)))
	if r.Err != nil {
		return "ERROR " + ErrClass(r.Err)
	}
	var lines []string
	for _, row := range r.Rows {
		line := fmt.Sprint(row[0])
		// "GRANT `r2`@`localhost`, `r1`@`localhost` TO ..": the order of the roles
		// (and of privileges) inside one line is presentation, not state
		if i, j := strings.Index(line, "GRANT "), strings.LastIndex(line, " TO "); i == 0 && j > 0 && !strings.Contains(line, " ON ") {
			parts := strings.Split(line[6:j], ", ")
			sort.Strings(parts)
			line = "GRANT " + strings.Join(parts, ", ") + line[j:]
		}
		lines = append(lines, line)
	}
	sort.Strings(lines)
	return strings.Join(lines, " | ")
}

// exists reports whether an account with that name exists.
func (pw *privWorld) exists(name string) bool {
	r := pw.root.Exec(fmt.Sprintf("SELECT COUNT(*) FROM mysql.user WHERE User = '%s'", name))
	return r.Err == nil && len(r.Rows) == 1 && fmt.Sprint(r.Rows[0][0]) != "0"
}

// mismatch says how the engine's accounts and allow/deny matrices differ from
// those of model m ("" = they agree).
func (pw *privWorld) mismatch(m *privModel, all, users []string) string {
	for _, n := range all {
		if _, ok := m.accts[n]; ok != pw.exists(n) {
			return fmt.Sprintf("account %s: exists=%v, model %v", n, !ok, ok)
		}
	}
	for _, u := range users {
		if got, want := pw.decisions(u, true), m.decisions(u); got != want {
			return fmt.Sprintf("%s decides %s over %s, model %s", u, got, probeNames(), want)
		}
	}
	return ""
}

func (pw *privWorld) matches(m *privModel, all, users []string) bool {
	return pw.mismatch(m, all, users) == ""
}

// decisions returns the allow/deny matrix of a user over the probe set.
func (pw *privWorld) decisions(user string, fresh bool) string {
	s := pw.users[user]
	if fresh || s == nil {
		s = pw.sessionFor(user)
		if !fresh {
			pw.users[user] = s
		}
	}
	var b strings.Builder
	for _, p := range privProbes {
		r := s.Exec(p.sql)
		switch {
		case r.Err == nil:
			b.WriteByte('A')
		case isDenied(r.Err):
			b.WriteByte('d')
		default:
			b.WriteString("E(" + ErrClass(r.Err) + ")")
		}
	}
	return b.String()
}

func (m *privModel) decisions(user string) string {
	var b strings.Builder
	for _, p := range privProbes {
		if m.allowed(user, p.priv, p.table) && (p.and[0] == "" || m.allowed(user, p.and[0], p.and[1])) {
			b.WriteByte('A')
		} else {
			b.WriteByte('d')
		}
	}
	return b.String()
}

type privCfg struct {
	checkModel bool // C39: decisions equal the privilege model
	disk       bool // C41: persist faults, crashes and restarts
}

func checkC39(env *kernel.Env) { runPriv(env, privCfg{checkModel: true}) }
func checkC41(env *kernel.Env) { runPriv(env, privCfg{disk: true}) }

func runPriv(env *kernel.Env, cfg privCfg) {
	T := env.T
	disk := &simDisk{}
	pw := newPrivWorld(env, disk, nil)
	defer func() { pw.w.Close() }()
	model := &privModel{accts: map[string]*privLevel{}, isRole: map[string]bool{}, edges: map[string]map[string]bool{}}
	userNames := []string{"u1", "u2", "u3"}
	roleNames := []string{"r1", "r2"}
	tablePrivs := []string{"SELECT", "INSERT", "UPDATE", "DELETE", "CREATE", "DROP", "ALTER", "INDEX"}
	dbPrivs := append(append([]string{}, tablePrivs...), "EXECUTE", "CREATE VIEW")
	globalPrivs := append(append([]string{}, dbPrivs...), "CREATE USER", "SUPER")
	objects := []string{"t1", "t2", "t3", "Tm", "p1()", "vw"}
	privsOf := func(obj string) []string {
		if obj == "p1()" {
			return []string{"EXECUTE"}
		}
		return tablePrivs
	}
	onObj := func(obj string) string {
		if obj == "p1()" {
			return "PROCEDURE d.p1"
		}
		if obj == "Tm" {
			// table names are case-insensitive in this engine
			return "d." + []string{"Tm", "Tm", "tm", "TM"}[T.Draw(4)]
		}
		return "d." + obj
	}
	effectN := 0
	privHosts = map[string]string{}
	for _, n := range append(append([]string{}, userNames...), roleNames...) {
		privHosts[n] = []string{"localhost", "%"}[T.Draw(2)]
	}
	// ref names an account the way a statement may: with its host, or - for the
	// host % - without one
	ref := func(n string) string {
		if hostOf(n) == "%" && T.Bool(1, 2) {
			return "'" + n + "'"
		}
		return "'" + n + "'@'" + hostOf(n) + "'"
	}
	grantOpt := func() string {
		if T.Bool(1, 6) {
			return " WITH GRANT OPTION"
		}
		return ""
	}
	env.Nontrivial()
	steps := T.Range(4, 30)
	var lastAck []byte // durable blob after the last acknowledged statement
	// model is the live engine's state; durableModel the state held by the
	// durable blob (they differ after a statement whose Persist failed)
	durableModel := model
	allNames := append(append([]string{}, userNames...), roleNames...)
	for step := 0; step < steps && !env.Failed(); step++ {
		// ---- an admin statement ----
		next := model.clone()
		var q string
		existing := func(role bool) []string {
			var out []string
			for n := range model.accts {
				if model.isRole[n] == role {
					out = append(out, n)
				}
			}
			sort.Strings(out)
			return out
		}
		switch T.Pick(3, 2, 8, 4, 3, 1, 1, 1, 1) {
		case 8: // a grant in a second database (sorting after d): database-level there, whatever the account holds in d
			all := append(existing(false), existing(true)...)
			if len(all) == 0 {
				continue
			}
			n := all[T.Draw(len(all))]
			q = fmt.Sprintf("GRANT %s ON %s TO %s", []string{"SELECT", "INSERT, DELETE", "UPDATE"}[T.Draw(3)], []string{"e.*", "e.*", "e.t1"}[T.Draw(3)], ref(n))
		case 7: // a dynamic privilege (global only), with or without the grant option
			all := append(existing(false), existing(true)...)
			if len(all) == 0 {
				continue
			}
			n := all[T.Draw(len(all))]
			q = fmt.Sprintf("GRANT %s ON *.* TO %s%s", []string{"CLONE_ADMIN", "REPLICATION_SLAVE_ADMIN"}[T.Draw(2)], ref(n), []string{"", " WITH GRANT OPTION"}[T.Draw(2)])
		case 0: // CREATE USER
			n := userNames[T.Draw(len(userNames))]
			if _, ok := model.accts[n]; ok {
				continue
			}
			q = fmt.Sprintf("CREATE USER %s", ref(n))
			next.accts[n] = newPrivLevel()
		case 1: // CREATE ROLE
			n := roleNames[T.Draw(len(roleNames))]
			if _, ok := model.accts[n]; ok {
				continue
			}
			q = fmt.Sprintf("CREATE ROLE %s", ref(n))
			next.accts[n] = newPrivLevel()
			next.isRole[n] = true
		case 2: // GRANT privilege(s) at a level to a user or role
			all := append(existing(false), existing(true)...)
			if len(all) == 0 {
				continue
			}
			n := all[T.Draw(len(all))]
			acct := next.accts[n]
			allPrivs := T.Bool(1, 8)
			switch T.Draw(3) {
			case 0:
				p := globalPrivs[T.Draw(len(globalPrivs))]
				if allPrivs {
					p = "ALL"
					for _, x := range globalPrivs {
						acct.global[x] = true
					}
				} else {
					acct.global[p] = true
				}
				q = fmt.Sprintf("GRANT %s ON *.* TO %s%s", p, ref(n), grantOpt())
			case 1:
				p := dbPrivs[T.Draw(len(dbPrivs))]
				if allPrivs {
					p = "ALL"
					for _, x := range dbPrivs {
						acct.db[x] = true
					}
				} else {
					acct.db[p] = true
				}
				q = fmt.Sprintf("GRANT %s ON d.* TO %s%s", p, ref(n), grantOpt())
			default:
				t := objects[T.Draw(len(objects))]
				ps := privsOf(t)
				p := ps[T.Draw(len(ps))]
				if acct.table[t] == nil {
					acct.table[t] = map[string]bool{}
				}
				if allPrivs && t != "p1()" {
					p = "ALL"
					for _, x := range ps {
						acct.table[t][x] = true
					}
				} else {
					acct.table[t][p] = true
				}
				q = fmt.Sprintf("GRANT %s ON %s TO %s%s", p, onObj(t), ref(n), grantOpt())
			}
		case 3: // REVOKE something that is granted (or everything at a level where something is)
			type g struct{ n, p, lvl, t string }
			var gs []g
			for _, n := range append(existing(false), existing(true)...) {
				a := model.accts[n]
				for _, p := range globalPrivs {
					if a.global[p] {
						gs = append(gs, g{n, p, "global", ""})
					}
					if a.db[p] {
						gs = append(gs, g{n, p, "db", ""})
					}
					for _, t := range objects {
						if a.table[t][p] {
							gs = append(gs, g{n, p, "table", t})
						}
					}
				}
			}
			if len(gs) == 0 {
				continue
			}
			x := gs[T.Draw(len(gs))]
			acct := next.accts[x.n]
			allPrivs := T.Bool(1, 8) && x.t != "p1()"
			p := x.p
			if allPrivs {
				p = "ALL"
			}
			switch x.lvl {
			case "global":
				q = fmt.Sprintf("REVOKE %s ON *.* FROM %s", p, ref(x.n))
				if allPrivs {
					acct.global = map[string]bool{}
				} else {
					delete(acct.global, x.p)
				}
			case "db":
				q = fmt.Sprintf("REVOKE %s ON d.* FROM %s", p, ref(x.n))
				if allPrivs {
					acct.db = map[string]bool{}
				} else {
					delete(acct.db, x.p)
				}
			default:
				q = fmt.Sprintf("REVOKE %s ON %s FROM %s", p, onObj(x.t), ref(x.n))
				if allPrivs {
					acct.table[x.t] = map[string]bool{}
				} else {
					delete(acct.table[x.t], x.p)
				}
			}
		case 4: // GRANT role TO user
			us, rs := existing(false), existing(true)
			if len(us) == 0 || len(rs) == 0 {
				continue
			}
			u, r := us[T.Draw(len(us))], rs[T.Draw(len(rs))]
			q = fmt.Sprintf("GRANT %s TO %s", ref(r), ref(u))
			if T.Bool(1, 4) {
				q += " WITH ADMIN OPTION"
			}
			if next.edges[u] == nil {
				next.edges[u] = map[string]bool{}
			}
			next.edges[u][r] = true
		case 5: // REVOKE role FROM user
			var pairs [][2]string
			for _, u := range existing(false) {
				for r := range model.edges[u] {
					pairs = append(pairs, [2]string{u, r})
				}
			}
			sort.Slice(pairs, func(i, j int) bool { return pairs[i][0]+pairs[i][1] < pairs[j][0]+pairs[j][1] })
			if len(pairs) == 0 {
				continue
			}
			x := pairs[T.Draw(len(pairs))]
			q = fmt.Sprintf("REVOKE %s FROM %s", ref(x[1]), ref(x[0]))
			delete(next.edges[x[0]], x[1])
		case 6: // DROP USER / ROLE
			all := append(existing(false), existing(true)...)
			if len(all) == 0 {
				continue
			}
			n := all[T.Draw(len(all))]
			if model.isRole[n] {
				q = fmt.Sprintf("DROP ROLE %s", ref(n))
				for u := range next.edges {
					delete(next.edges[u], n)
				}
			} else {
				q = fmt.Sprintf("DROP USER %s", ref(n))
				delete(next.edges, n)
			}
			delete(next.accts, n)
			delete(next.isRole, n)
		}
		fault := ""
		if cfg.disk {
			fault = []string{"", "", "", "fail", "crash-before", "crash-after"}[T.Draw(6)]
			disk.next = fault
		}
		callsBefore := disk.calls
		r := pw.root.Exec(q)
		persisted := disk.calls > callsBefore
		if !persisted {
			disk.next = ""
		}
		env.Kind("admin:" + fault + ":" + strings.Join(strings.Fields(q)[:2], "-") + ":" + fmt.Sprint(strings.Contains(q, "*.*"), strings.Contains(q, "d.*")))
		env.Logf("root: %s [persist fault: %q, persist called: %v] -> %s", q, fault, persisted, ErrClass(r.Err))
		switch {
		case disk.crashed:
			// the process died inside Persist: only the durable blob survives
			env.Fault("crash-during-persist:" + fault)
			disk.crashed = false
			// `next` is the statement applied to the live state; the durable blob
			// before the statement corresponds to durableModel
			pw.w.Close()
			pw = newPrivWorld(env, disk, disk.durable)
			if env.Failed() {
				return
			}
			isOld, isNew := pw.matches(durableModel, allNames, userNames), pw.matches(next, allNames, userNames)
			switch {
			case fault == "crash-before" && !isOld:
				env.Fail("crash-consistency", "crash-before-replace-not-old-state", "after a crash before the durable blob was replaced, the restarted engine does not show the last durable state (statement in flight: %q): %s", q, pw.mismatch(durableModel, allNames, userNames))
			case fault == "crash-after" && !isNew && !isOld:
				env.Fail("crash-consistency", "crash-after-replace-mixed-state", "after a crash right after the durable blob was replaced, the restarted engine shows neither the state before (%s) nor the state after %q (%s)", pw.mismatch(durableModel, allNames, userNames), q, pw.mismatch(next, allNames, userNames))
			}
			if isNew && !isOld {
				model, durableModel = next, next
			} else if isNew && fault == "crash-after" {
				model, durableModel = next, next
			} else {
				model = durableModel
			}
			lastAck = disk.durable
			continue
		case r.Err != nil && fault == "fail" && persisted:
			env.Fault("persist-error")
			// the statement failed; durable must be what it was
			if string(disk.durable) != string(lastAck) {
				env.Fail("failed-persist-keeps-durable", "durable-changed-on-failed-persist", "%q failed in Persist but the durable blob changed", q)
			}
			// the live engine applies the change in memory first: it is in the old
			// or the new state, never a mixture; learn which
			switch {
			case pw.matches(next, allNames, userNames):
				env.Probe("live-state-ahead-of-durable")
				model = next
			case pw.matches(model, allNames, userNames):
			default:
				env.Fail("failed-statement-old-or-new", "mixed-state-after-failed-persist", "after %q failed in Persist the live engine shows neither the state before nor the state after it", q)
			}
			continue
		case r.Err != nil:
			env.Fail("admin-statement-succeeds", "admin-statement-failed", "root: %q failed: %v", q, r.Err)
			continue
		case fault == "fail" && persisted:
			env.Fail("persist-error-reported", "persist-error-swallowed", "%q reported success although Persist returned an error", q)
			continue
		}
		model, durableModel = next, next
		lastAck = disk.durable
		// ---- C39: every user's decisions, from its long-lived session and from a fresh one ----
		if cfg.checkModel {
			for _, u := range userNames {
				want := model.decisions(u)
				for _, fresh := range []bool{false, true} {
					got := pw.decisions(u, fresh)
					if got != want {
						kind := "existing-session"
						if fresh {
							kind = "fresh-session"
						}
						env.Fail("decisions-equal-model", "decision-differs:"+kind, "after %q: %s (%s) gets %s over the probes %s, the privilege model says %s", q, u, kind, got, probeNames(), want)
						break
					}
				}
				if env.Failed() {
					break
				}
			}
		}
		// ---- C39: one statement with an effect, by one user: allowed iff the model
		// says so; allowed => it took effect, denied => nothing changed ----
		if cfg.checkModel && !env.Failed() && T.Bool(2, 3) {
			effectN++
			effs := privEffects(effectN)
			e := effs[T.Draw(len(effs))]
			u := userNames[T.Draw(len(userNames))]
			covers := func(u string, e privEffect) bool {
				ok := true
				for _, nd := range e.need {
					ok = ok && model.allowed(u, nd[0], nd[1])
				}
				return ok
			}
			if T.Bool(1, 2) {
				// half of the time prefer a pair the model allows (most pairs are denied)
				type pair struct {
					u string
					e privEffect
				}
				var ok []pair
				for _, cu := range userNames {
					for _, ce := range effs {
						if covers(cu, ce) {
							ok = append(ok, pair{cu, ce})
						}
					}
				}
				if len(ok) > 0 {
					x := ok[T.Draw(len(ok))]
					u, e = x.u, x.e
				}
			}
			fresh := T.Bool(1, 3)
			want := covers(u, e)
			s := pw.users[u]
			if fresh || s == nil {
				s = pw.sessionFor(u)
			}
			before := pw.digest()
			r := s.Exec(e.sql)
			after := pw.digest()
			env.Kind(fmt.Sprintf("effect:%s:%v", e.name, want))
			env.Logf("%s (fresh session: %v): %s -> %s [model allows: %v]", u, fresh, e.sql, ErrClass(r.Err), want)
			switch {
			case r.Err != nil && !isDenied(r.Err):
				env.Fail("decisions-equal-model", "effect-statement-unexpected-error:"+e.name, "%s: %q failed with %v (neither success nor a privilege error)", u, e.sql, r.Err)
			case r.Err == nil && !want:
				env.Fail("decisions-equal-model", "allowed-without-privilege:"+e.name, "%s ran %q successfully; the model has no grant (own or through a role) covering %v", u, e.sql, e.need)
			case r.Err != nil && want:
				env.Fail("decisions-equal-model", "denied-with-privilege:"+e.name, "%s was denied %q (%v) although its grants cover %v", u, e.sql, r.Err, e.need)
			case r.Err != nil && before != after:
				env.Fail("denied-has-no-effect", "denied-statement-changed-state:"+e.name, "%s was denied %q, yet the database changed:\nbefore: %s\nafter:  %s", u, e.sql, before, after)
			case r.Err == nil && before == after:
				env.Fail("allowed-takes-effect", "allowed-statement-no-effect:"+e.name, "%s ran %q successfully but nothing changed", u, e.sql)
			}
			if r.Err == nil {
				env.Probe("effect-allowed")
				for _, uq := range e.undo {
					pw.root.MustExec(uq)
				}
			} else {
				env.Probe("effect-denied")
			}
		}
		// ---- C41: a fresh engine loaded from the durable blob equals the live one ----
		if cfg.disk && !env.Failed() && (T.Bool(1, 2) || step == steps-1) {
			env.Fault("restart")
			shadow := newPrivWorld(env, &simDisk{}, disk.durable)
			if env.Failed() {
				return
			}
			for _, n := range append(append([]string{}, userNames...), roleNames...) {
				lg, sg := pw.grantsOf(n), shadow.grantsOf(n)
				if lg != sg {
					env.Fail("reload-equals-live", "show-grants-differ", "SHOW GRANTS FOR %s: live engine [%s], engine reloaded from the persisted data [%s]", n, lg, sg)
					break
				}
			}
			// the grant tables (what mysql.* shows of the access-control state: grant
			// and admin options, role edges, dynamic privileges)
			for _, gt := range []string{"user", "db", "tables_priv", "procs_priv", "role_edges", "global_grants"} {
				if env.Failed() {
					break
				}
				q := "SELECT * FROM mysql." + gt
				lr, sr := pw.root.Exec(q), shadow.root.Exec(q)
				if lr.Err != nil || sr.Err != nil {
					if ErrClass(lr.Err) != ErrClass(sr.Err) {
						env.Fail("reload-equals-live", "grant-table-differs:"+gt, "%s: live engine %v, reloaded engine %v", q, lr.Err, sr.Err)
					}
					continue
				}
				// (password_last_changed is wall-clock time, kept to the second on disk: not access-control state)
				for _, rows := range [][]sql.Row{lr.Rows, sr.Rows} {
					for _, row := range rows {
						for i, v := range row {
							if _, ok := v.(time.Time); ok {
								row[i] = "<time>"
							}
						}
					}
				}
				lt, st := strings.Join(FormatRows(lr.Rows, false), " "), strings.Join(FormatRows(sr.Rows, false), " ")
				if lt != st {
					env.Fail("reload-equals-live", "grant-table-differs:"+gt, "%s: live engine\n  %s\nengine reloaded from the persisted data\n  %s", q, lt, st)
				}
			}
			for _, u := range userNames {
				if env.Failed() {
					break
				}
				ld, sd := pw.decisions(u, true), shadow.decisions(u, true)
				if ld != sd {
					env.Fail("reload-equals-live", "decisions-differ", "%s: live engine decides %s, reloaded engine %s over %s", u, ld, sd, probeNames())
				}
			}
			// reloading what the reloaded engine persists is idempotent
			shadow.w.Close()
			pw.w.rehook()
		}
	}
}

func probeNames() string {
	var parts []string
	for _, p := range privProbes {
		parts = append(parts, p.priv+"("+p.table+")")
	}
	return strings.Join(parts, ",")
}

// privEffect is a statement with a visible effect and the privileges it needs.
type privEffect struct {
	name, sql string
	need      [][2]string // (privilege, object), all required
	undo      []string    // run by root after a successful execution
}

func privEffects(n int) []privEffect {
	return []privEffect{
		{"insert", fmt.Sprintf("INSERT INTO d.t1 VALUES (%d, 1)", 1000+n), [][2]string{{"INSERT", "t1"}}, []string{"DELETE FROM d.t1 WHERE id >= 1000"}},
		{"update", fmt.Sprintf("UPDATE d.t2 SET b = %d", 1000+n), [][2]string{{"UPDATE", "t2"}}, nil},
		{"delete", "DELETE FROM d.t2", [][2]string{{"DELETE", "t2"}}, []string{"INSERT INTO d.t2 VALUES (1, 1), (2, 2)"}},
		{"insert-select", fmt.Sprintf("INSERT INTO d.t1 (id, a) SELECT id + %d, b FROM d.t2", 2000+10*n), [][2]string{{"INSERT", "t1"}, {"SELECT", "t2"}}, []string{"DELETE FROM d.t1 WHERE id >= 1000"}},
		{"replace", fmt.Sprintf("REPLACE INTO d.t1 VALUES (1, %d)", 1000+n), [][2]string{{"INSERT", "t1"}, {"DELETE", "t1"}}, nil},
		{"create-table", "CREATE TABLE d.n1 (id INT PRIMARY KEY)", [][2]string{{"CREATE", "n1"}}, []string{"DROP TABLE d.n1"}},
		{"drop-table", "DROP TABLE d.t3", [][2]string{{"DROP", "t3"}}, []string{"CREATE TABLE d.t3 (id INT PRIMARY KEY, c INT)", "INSERT INTO d.t3 VALUES (1, 1)"}},
		{"alter-table", "ALTER TABLE d.t3 ADD COLUMN x INT", [][2]string{{"ALTER", "t3"}}, []string{"ALTER TABLE d.t3 DROP COLUMN x"}},
		{"create-index", "CREATE INDEX ix ON d.t3 (c)", [][2]string{{"INDEX", "t3"}}, []string{"DROP INDEX ix ON d.t3"}},
		{"create-user", "CREATE USER 'tmp'@'localhost'", [][2]string{{"CREATE USER", ""}}, []string{"DROP USER 'tmp'@'localhost'"}},
		{"create-view", "CREATE VIEW d.nv AS SELECT 1", [][2]string{{"CREATE VIEW", "nv"}}, []string{"DROP VIEW d.nv"}},
	}
}

// digest: the state a statement of privEffects could change, read by root.
func (pw *privWorld) digest() string {
	var b strings.Builder
	for _, q := range []string{"SHOW TABLES FROM d", "SELECT * FROM d.t1 ORDER BY id", "SELECT * FROM d.t2 ORDER BY id", "SELECT * FROM d.t3 ORDER BY id", "SHOW CREATE TABLE d.t3", "SELECT COUNT(*) FROM mysql.user"} {
		r := pw.root.Exec(q)
		if r.Err != nil {
			b.WriteString("ERR " + ErrClass(r.Err) + "; ")
			continue
		}
		b.WriteString(strings.Join(FormatRows(r.Rows, true), ",") + "; ")
	}
	return b.String()
}

package sqlsim

import (
	"fmt"
	"math"
	"sort"
	"strings"
)

// Reference table model (DESIGN.md section 4). Plain Go, no code shared with
// the engine: value coercion for the generated types, three-valued predicate
// evaluation, key equality per collation and prefix length, the DML forms
// with MySQL's documented affected-row arithmetic, constraint checks.

// MRow is a model row, one Val per column (generated columns included).
type MRow []Val

// MTable is the model of one table.
type MTable struct {
	Def  *TableDef
	Rows []MRow
}

// Clone deep-copies the table.
func (m *MTable) Clone() *MTable {
	out := &MTable{Def: m.Def, Rows: make([]MRow, len(m.Rows))}
	for i, r := range m.Rows {
		out.Rows[i] = append(MRow(nil), r...)
	}
	return out
}

// Render returns the rows as canonical sorted strings (same format as FormatRows).
func (m *MTable) Render() []string {
	out := make([]string, len(m.Rows))
	for i, r := range m.Rows {
		parts := make([]string, len(r))
		for j, v := range r {
			parts[j] = renderVal(v)
		}
		out[i] = "(" + strings.Join(parts, ",") + ")"
	}
	sort.Strings(out)
	return out
}

func renderVal(v Val) string {
	switch x := v.(type) {
	case nil:
		return "NULL"
	case int64:
		return fmt.Sprint(x)
	case string:
		return "'" + x + "'"
	}
	return fmt.Sprint(v)
}

// fold applies the column's collation to a string for equality/ordering.
func fold(c *Col, s string) string {
	if c.CI {
		// utf8mb4_0900_ai_ci: letter case and accents do not distinguish
		return strings.NewReplacer("á", "a", "Á", "a", "é", "e", "É", "e").Replace(strings.ToLower(s))
	}
	return s
}

// runePrefix returns the first n characters of s (lengths and key prefixes count characters).
func runePrefix(s string, n int) string {
	r := []rune(s)
	if len(r) > n {
		return string(r[:n])
	}
	return s
}

// cmpVals compares two non-NULL values of column c's type.
func cmpVals(c *Col, a, b Val) int {
	if c.Kind == KInt {
		x, y := a.(int64), b.(int64)
		switch {
		case x < y:
			return -1
		case x > y:
			return 1
		}
		return 0
	}
	return strings.Compare(fold(c, a.(string)), fold(c, b.(string)))
}

// tri is a three-valued truth value.
type tri int

const (
	tFalse tri = iota
	tTrue
	tUnknown
)

func triOf(b bool) tri {
	if b {
		return tTrue
	}
	return tFalse
}

// EvalPred evaluates a predicate on a row.
func EvalPred(t *TableDef, p *Pred, r MRow) tri {
	if p == nil {
		return tTrue
	}
	switch p.Kind {
	case "true":
		return tTrue
	case "cmp":
		v := r[p.Col]
		if v == nil || p.C == nil {
			return tUnknown
		}
		c := cmpVals(&t.Cols[p.Col], v, p.C)
		switch p.Op {
		case "=":
			return triOf(c == 0)
		case "<>":
			return triOf(c != 0)
		case "<":
			return triOf(c < 0)
		case "<=":
			return triOf(c <= 0)
		case ">":
			return triOf(c > 0)
		case ">=":
			return triOf(c >= 0)
		}
	case "isnull":
		return triOf(r[p.Col] == nil)
	case "notnull":
		return triOf(r[p.Col] != nil)
	case "in":
		v := r[p.Col]
		if v == nil {
			return tUnknown
		}
		for _, x := range p.List {
			if x != nil && cmpVals(&t.Cols[p.Col], v, x) == 0 {
				return tTrue
			}
		}
		return tFalse
	case "and":
		a, b := EvalPred(t, p.L, r), EvalPred(t, p.R, r)
		if a == tFalse || b == tFalse {
			return tFalse
		}
		if a == tTrue && b == tTrue {
			return tTrue
		}
		return tUnknown
	case "or":
		a, b := EvalPred(t, p.L, r), EvalPred(t, p.R, r)
		if a == tTrue || b == tTrue {
			return tTrue
		}
		if a == tFalse && b == tFalse {
			return tFalse
		}
		return tUnknown
	}
	return tUnknown
}

// evalCheck evaluates a CHECK on a row (violated only when FALSE).
func evalCheck(t *TableDef, c CheckDef, r MRow) tri {
	if c.NotEnforced {
		return tTrue
	}
	a := r[c.A]
	var b Val = c.C
	if c.BIsCol {
		b = r[c.B]
	}
	if a == nil || b == nil {
		return tUnknown
	}
	x, y := a.(int64), b.(int64)
	switch c.Op {
	case "<":
		return triOf(x < y)
	case "<>":
		return triOf(x != y)
	case ">=":
		return triOf(x >= y)
	}
	return tUnknown
}

// keyEqual reports whether rows a and b collide on key k (NULL never equal).
func keyEqual(t *TableDef, k *Key, a, b MRow) bool {
	for i, ci := range k.Cols {
		x, y := a[ci], b[ci]
		if x == nil || y == nil {
			return false
		}
		c := &t.Cols[ci]
		if c.Kind == KStr && k.Prefix != nil && k.Prefix[i] > 0 {
			xs, ys := x.(string), y.(string)
			xs, ys = runePrefix(xs, k.Prefix[i]), runePrefix(ys, k.Prefix[i])
			x, y = xs, ys
		}
		if cmpVals(c, x, y) != 0 {
			return false
		}
	}
	return true
}

// conflicts returns indexes of rows colliding with r on any unique key
// (primary first, then unique keys in definition order), without duplicates,
// skipping row index self (-1 for none).
func (m *MTable) conflicts(r MRow, self int) []int {
	var out []int
	seen := map[int]bool{}
	for ki := range m.Def.Keys {
		k := &m.Def.Keys[ki]
		if !k.Unique {
			continue
		}
		for i, o := range m.Rows {
			if i == self || seen[i] {
				continue
			}
			if keyEqual(m.Def, k, r, o) {
				seen[i] = true
				out = append(out, i)
			}
		}
	}
	return out
}

// rowErr is a model-level statement failure kind ("" = ok).
type rowErr string

// coerce converts v for storage in column c. Under ignore, failures become
// adjusted values with a warning.
func coerce(c *Col, v Val, ignore bool) (Val, rowErr, bool) {
	if v == nil {
		if c.Nullable {
			return nil, "", false
		}
		if ignore {
			if c.Kind == KInt {
				return int64(0), "", true
			}
			return "", "", true
		}
		return nil, "not-null", false
	}
	if c.Kind == KInt {
		x, ok := v.(int64)
		if !ok {
			return nil, "out-of-range", false
		}
		if x < c.Min || x > c.Max {
			if ignore {
				if x < c.Min {
					return c.Min, "", true
				}
				return c.Max, "", true
			}
			return nil, "out-of-range", false
		}
		return x, "", false
	}
	s, ok := v.(string)
	if !ok {
		return nil, "out-of-range", false
	}
	if len([]rune(s)) > c.Len {
		if ignore {
			return runePrefix(s, c.Len), "", true
		}
		return nil, "out-of-range", false
	}
	return s, "", false
}

// finishRow computes generated columns and runs CHECKs.
func (m *MTable) finishRow(r MRow) rowErr {
	t := m.Def
	for i := range t.Cols {
		c := &t.Cols[i]
		if c.GenFrom >= 0 {
			src := r[c.GenFrom]
			if src == nil {
				r[i] = nil
			} else {
				r[i] = src.(int64) + 1
			}
		}
	}
	for _, ck := range t.Checks {
		if evalCheck(t, ck, r) == tFalse {
			return "check"
		}
	}
	return ""
}

// evalExpr evaluates an assignment / VALUES expression.
func evalExpr(e Expr, cur MRow, ins MRow, t *TableDef) (Val, rowErr) {
	switch e.Kind {
	case "const":
		return e.C, ""
	case "col":
		return cur[e.Col], ""
	case "colplus":
		v := cur[e.Col]
		if v == nil {
			return nil, ""
		}
		x, d := v.(int64), e.C.(int64)
		if (d > 0 && x > math.MaxInt64-d) || (d < 0 && x < math.MinInt64-d) {
			return nil, "out-of-range"
		}
		return x + d, ""
	case "values":
		if ins == nil {
			return nil, ""
		}
		return ins[e.Col], ""
	}
	return nil, ""
}

// Outcome of applying a statement to the model.
type Outcome struct {
	Err       rowErr   // "" = success
	ErrAlt    []rowErr // other error kinds that an engine processing rows in another order may legitimately report
	Affected  int64
	Matched   int64 // UPDATE: rows matched
	Warnings  int
	CountOpen bool      // affected-row arithmetic intentionally unchecked (documented engine/MySQL difference)
	OrderDep  bool      // result depends on an unspecified processing order: only "no garbage" is checked
	Alts      []*MTable // every legitimate final state of a successful execution when OrderDep
}

// buildInsertRow materialises the i-th VALUES row.
func (m *MTable) buildInsertRow(s *Stmt, i int, ignore bool) (MRow, rowErr, int) {
	t := m.Def
	r := make(MRow, len(t.Cols))
	given := map[int]bool{}
	warn := 0
	for p, ci := range s.Cols {
		given[ci] = true
		e := s.Rows[i][p]
		c := &t.Cols[ci]
		var v Val
		if e.Kind == "default" {
			if c.HasDef {
				v = c.Default
			} else {
				v = nil
			}
		} else {
			v = e.C
		}
		cv, err, w := coerce(c, v, ignore)
		if err != "" {
			return nil, err, warn
		}
		if w {
			warn++
		}
		r[ci] = cv
	}
	for ci := range t.Cols {
		c := &t.Cols[ci]
		if given[ci] || c.GenFrom >= 0 {
			continue
		}
		switch {
		case c.HasDef:
			r[ci] = c.Default
		case c.Nullable:
			r[ci] = nil
		default:
			// NOT NULL without default and not supplied
			if ignore {
				if c.Kind == KInt {
					r[ci] = int64(0)
				} else {
					r[ci] = ""
				}
				warn++
			} else {
				return nil, "not-null", warn
			}
		}
	}
	return r, "", warn
}

// Apply executes the statement on the model. On failure the model is left
// unchanged (that the engine does the same is C15's business, and is asserted
// by the callers through state comparison).
func (m *MTable) Apply(s *Stmt) Outcome {
	switch s.Kind {
	case "insert", "insert-ignore", "replace", "odku":
		return m.applyInsert(s)
	case "update":
		return m.applyUpdate(s)
	case "delete":
		return m.applyDelete(s)
	}
	return Outcome{Err: "unsupported"}
}

func (m *MTable) applyInsert(s *Stmt) Outcome {
	ignore := s.Kind == "insert-ignore"
	work := m.Clone()
	out := Outcome{}
	// fail reports the failure of row i and collects, as alternatives, the
	// failure kinds of the later rows: an engine that validates values of all
	// rows before executing may legitimately report one of those instead.
	fail := func(e rowErr, i int) Outcome {
		o := Outcome{Err: e}
		// the failing row itself may be wrong in more than one way, and the order
		// in which an engine validates one row is not specified
		o.ErrAlt = append(o.ErrAlt, work.rowFailureKinds(s, i)...)
		for j := i + 1; j < len(s.Rows); j++ {
			r, err, _ := work.buildInsertRow(s, j, ignore)
			if err != "" {
				o.ErrAlt = append(o.ErrAlt, err)
				continue
			}
			if e2 := work.finishRow(r); e2 != "" && !ignore {
				o.ErrAlt = append(o.ErrAlt, e2)
			}
		}
		return o
	}
	for i := range s.Rows {
		r, err, w := work.buildInsertRow(s, i, ignore)
		out.Warnings += w
		if err != "" {
			// conversion / not-null errors abort the statement (IGNORE adjusted them already)
			return fail(err, i)
		}
		if e := work.finishRow(r); e != "" {
			if ignore {
				out.Warnings++
				continue
			}
			return fail(e, i)
		}
		conf := work.conflicts(r, -1)
		if len(conf) == 0 {
			work.Rows = append(work.Rows, r)
			out.Affected++
			continue
		}
		switch s.Kind {
		case "insert":
			return fail("duplicate-key", i)
		case "insert-ignore":
			out.Warnings++
		case "replace":
			if len(conf) > 1 {
				out.CountOpen = true // engine reports 1+1, MySQL 1+n (documented difference)
			}
			sort.Sort(sort.Reverse(sort.IntSlice(conf)))
			for _, ci := range conf {
				work.Rows = append(work.Rows[:ci], work.Rows[ci+1:]...)
			}
			work.Rows = append(work.Rows, r)
			out.Affected += 1 + int64(len(conf))
		case "odku":
			// update the first conflicting row (primary key first)
			ci := conf[0]
			old := work.Rows[ci]
			nr := append(MRow(nil), old...)
			for _, a := range s.Set {
				if a.E.Kind == "default" && work.Def.Cols[a.Col].GenFrom >= 0 {
					continue // generated column = DEFAULT: recomputed from the final base values below
				}
				v, e := evalExpr(a.E, old, r, work.Def)
				if e != "" {
					return Outcome{Err: e}
				}
				cv, e2, _ := coerce(&work.Def.Cols[a.Col], v, false)
				if e2 != "" {
					return Outcome{Err: e2}
				}
				nr[a.Col] = cv
			}
			if e := work.finishRow(nr); e != "" {
				return Outcome{Err: e}
			}
			if len(work.conflicts(nr, ci)) > 0 {
				return Outcome{Err: "duplicate-key"}
			}
			if !rowsIdentical(old, nr) {
				work.Rows[ci] = nr
				out.Affected += 2
			}
		}
	}
	m.Rows = work.Rows
	return out
}

// rowFailureKinds lists every way the i-th VALUES row is wrong, evaluating
// each column on its own and the CHECKs / keys on the raw values where they
// are usable.
func (m *MTable) rowFailureKinds(s *Stmt, i int) []rowErr {
	t := m.Def
	var kinds []rowErr
	raw := make(MRow, len(t.Cols))
	given := map[int]bool{}
	for p, ci := range s.Cols {
		given[ci] = true
		e := s.Rows[i][p]
		c := &t.Cols[ci]
		v := e.C
		if e.Kind == "default" {
			v = nil
			if c.HasDef {
				v = c.Default
			}
		}
		raw[ci] = v
		if _, err, _ := coerce(c, v, false); err != "" {
			// a CHECK over a column whose value is not representable has no defined truth
			// value: the engine may evaluate it on the unconverted value and report it first
			for _, ck := range t.Checks {
				if !ck.NotEnforced && (ck.A == ci || (ck.BIsCol && ck.B == ci)) {
					kinds = append(kinds, "check")
				}
			}
			kinds = append(kinds, err)
		}
	}
	for ci := range t.Cols {
		c := &t.Cols[ci]
		if given[ci] || c.GenFrom >= 0 {
			continue
		}
		if c.HasDef {
			raw[ci] = c.Default
		} else if !c.Nullable {
			kinds = append(kinds, "not-null")
		}
	}
	for _, ck := range t.Checks {
		ok := true
		for _, ci := range []int{ck.A, ck.B} {
			if ci == ck.B && !ck.BIsCol {
				continue
			}
			if raw[ci] != nil {
				if _, isInt := raw[ci].(int64); !isInt {
					ok = false
				}
			}
		}
		if ok && evalCheck(t, ck, raw) == tFalse {
			kinds = append(kinds, "check")
		}
	}
	func() {
		defer func() { _ = recover() }() // raw values of the wrong Go type cannot be compared; then no key verdict
		if s.Kind == "insert" && len(m.conflicts(raw, -1)) > 0 {
			kinds = append(kinds, "duplicate-key")
		}
	}()
	return kinds
}

func rowsIdentical(a, b MRow) bool {
	for i := range a {
		if a[i] != b[i] {
			return false
		}
	}
	return true
}

// pkLess orders rows by primary key (ints numerically, strings by collation).
func (m *MTable) pkLess(a, b MRow) bool {
	pk := m.Def.PK()
	for _, ci := range pk.Cols {
		c := cmpVals(&m.Def.Cols[ci], a[ci], b[ci])
		if c != 0 {
			return c < 0
		}
	}
	return false
}

// selectIdx returns the indexes of the rows a statement touches, honouring
// WHERE, ORDER BY pk and LIMIT.
func (m *MTable) selectIdx(s *Stmt) []int {
	var idx []int
	for i, r := range m.Rows {
		if EvalPred(m.Def, s.Where, r) == tTrue {
			idx = append(idx, i)
		}
	}
	if m.Def.HasPK {
		sort.SliceStable(idx, func(i, j int) bool { return m.pkLess(m.Rows[idx[i]], m.Rows[idx[j]]) })
		if s.OrderPK < 0 {
			for l, r := 0, len(idx)-1; l < r; l, r = l+1, r-1 {
				idx[l], idx[r] = idx[r], idx[l]
			}
		}
	}
	if s.Limit >= 0 && len(idx) > s.Limit {
		idx = idx[:s.Limit]
	}
	return idx
}

func (m *MTable) updateInOrder(s *Stmt, idx []int) (*MTable, Outcome) {
	work := m.Clone()
	out := Outcome{Matched: int64(len(idx))}
	for _, i := range idx {
		old := work.Rows[i]
		nr := append(MRow(nil), old...)
		for _, a := range s.Set {
			if a.E.Kind == "default" && work.Def.Cols[a.Col].GenFrom >= 0 {
				continue // generated column = DEFAULT: recomputed from the final base values below
			}
			v, e := evalExpr(a.E, old, nil, work.Def)
			if e != "" {
				return m, Outcome{Err: e}
			}
			cv, e2, _ := coerce(&work.Def.Cols[a.Col], v, false)
			if e2 != "" {
				return m, Outcome{Err: e2}
			}
			nr[a.Col] = cv
		}
		if rowsIdentical(old, nr) {
			continue
		}
		if e := work.finishRow(nr); e != "" {
			return m, Outcome{Err: e}
		}
		if len(work.conflicts(nr, i)) > 0 {
			return m, Outcome{Err: "duplicate-key"}
		}
		work.Rows[i] = nr
		out.Affected++
	}
	return work, out
}

func (m *MTable) applyUpdate(s *Stmt) Outcome {
	idx := m.selectIdx(s)
	w1, o1 := m.updateInOrder(s, idx)
	// the same rows in the opposite order, and all at once: if the outcomes
	// differ the statement's result depends on a processing order that is not
	// specified (transient key conflicts inside one statement; which row's
	// error is reported first)
	rev := make([]int, len(idx))
	for i := range idx {
		rev[len(idx)-1-i] = idx[i]
	}
	w2, o2 := m.updateInOrder(s, rev)
	w3, o3 := m.updateAtOnce(s, idx)
	render := func(t *MTable) string { return strings.Join(t.Render(), "|") }
	type alt struct {
		o Outcome
		w *MTable
	}
	alts := []alt{{o1, w1}, {o2, w2}, {o3, w3}}
	same := true
	for _, a := range alts[1:] {
		if a.o.Err != o1.Err || (a.o.Err == "" && (a.o.Affected != o1.Affected || render(a.w) != render(w1))) {
			same = false
		}
	}
	if !same {
		o1.OrderDep = true
		for _, a := range alts {
			if a.o.Err != "" {
				o1.ErrAlt = append(o1.ErrAlt, a.o.Err)
			} else {
				o1.Alts = append(o1.Alts, a.w)
			}
		}
	}
	if o1.Err != "" && o2.Err != "" && len(idx) > 1 {
		// the statement fails whichever end it starts from; an engine that visits the
		// rows in yet another order (a keyless table has none) may meet another row's
		// failure first: any failure a selected row produces when it is processed
		// first is an acceptable kind
		for _, i := range idx {
			if _, oi := m.updateInOrder(s, []int{i}); oi.Err != "" && oi.Err != o1.Err {
				o1.ErrAlt = append(o1.ErrAlt, oi.Err)
			}
		}
		// ... and so is the failure of a row against one other selected row processed just
		// before it (two rows that pass on their own and collide on a unique value); found as a
		// false alarm by the thorough tier (seed 12)
		if len(idx) <= 12 {
			for _, i := range idx {
				for _, j := range idx {
					if i == j {
						continue
					}
					if _, oij := m.updateInOrder(s, []int{i, j}); oij.Err != "" && oij.Err != o1.Err {
						o1.ErrAlt = append(o1.ErrAlt, oij.Err)
					}
				}
			}
		}
	}
	if o1.Err == "" {
		m.Rows = w1.Rows
	}
	return o1
}

// updateAtOnce computes every new row from the old state and checks the
// constraints on the final state only.
func (m *MTable) updateAtOnce(s *Stmt, idx []int) (*MTable, Outcome) {
	work := m.Clone()
	out := Outcome{Matched: int64(len(idx))}
	for _, i := range idx {
		old := m.Rows[i]
		nr := append(MRow(nil), old...)
		for _, a := range s.Set {
			if a.E.Kind == "default" && work.Def.Cols[a.Col].GenFrom >= 0 {
				continue // generated column = DEFAULT: recomputed from the final base values below
			}
			v, e := evalExpr(a.E, old, nil, work.Def)
			if e != "" {
				return m, Outcome{Err: e}
			}
			cv, e2, _ := coerce(&work.Def.Cols[a.Col], v, false)
			if e2 != "" {
				return m, Outcome{Err: e2}
			}
			nr[a.Col] = cv
		}
		if rowsIdentical(old, nr) {
			continue
		}
		if e := work.finishRow(nr); e != "" {
			return m, Outcome{Err: e}
		}
		work.Rows[i] = nr
		out.Affected++
	}
	for i, r := range work.Rows {
		if len(work.conflicts(r, i)) > 0 {
			return m, Outcome{Err: "duplicate-key"}
		}
	}
	return work, out
}

func (m *MTable) applyDelete(s *Stmt) Outcome {
	idx := m.selectIdx(s)
	del := map[int]bool{}
	for _, i := range idx {
		del[i] = true
	}
	var keep []MRow
	for i, r := range m.Rows {
		if !del[i] {
			keep = append(keep, r)
		}
	}
	m.Rows = keep
	return Outcome{Affected: int64(len(idx))}
}

// Filter returns the rendered rows satisfying p (the harness's own evaluation
// of an index-driven lookup).
func (m *MTable) Filter(p *Pred) []string {
	tmp := &MTable{Def: m.Def}
	for _, r := range m.Rows {
		if EvalPred(m.Def, p, r) == tTrue {
			tmp.Rows = append(tmp.Rows, r)
		}
	}
	return tmp.Render()
}

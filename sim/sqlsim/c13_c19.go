package sqlsim

import "verif/sim/kernel"

// avoidIgnoreWithGenerated: INSERT IGNORE on tables with generated columns
// stores a generated value computed from the unadjusted base value (known
// finding generated-stale-under-ignore).
func avoidIgnoreWithGenerated(id string) func(env *kernel.Env, t *TableDef) map[string]bool {
	return func(env *kernel.Env, t *TableDef) map[string]bool {
		if hasGenerated(t) && env.Avoid(id) {
			return map[string]bool{"insert-ignore": true}
		}
		// the same ordering problem lets an adjusted value slip past a CHECK
		// (known finding check-before-ignore-adjustment)
		if len(t.Checks) > 0 && env.Avoid("check-before-ignore-adjustment") {
			return map[string]bool{"insert-ignore": true}
		}
		return nil
	}
}

// C13: DML matches the reference table model.
func checkC13(env *kernel.Env) {
	runDML(env, dmlCfg{
		Check: "C13",
		Schema: func(env *kernel.Env) SchemaOpts {
			return SchemaOpts{Keyless: true, Composite: true, Defaults: true, NotNull: true, Checks: true,
				StrPK: true, CI: !env.Avoid("ci-case-only-update-ignored"), PrefixKeys: true,
				Generated: true, NoVirtual: env.Avoid("virtual-generated-dml")}
		},
		Kinds:      []string{"insert", "insert", "insert-ignore", "replace", "odku", "update", "update", "delete"},
		AvoidKinds: avoidIgnoreWithGenerated("generated-stale-under-ignore"),
		FaultRate:  7, ModelEq: true, MaxSteps: 24,
	})
}

// C14: primary and unique keys enforced exactly. Schemas biased to composite
// keys, string keys, case-insensitive and prefix keys, NULLs in unique columns.
func checkC14(env *kernel.Env) {
	runDML(env, dmlCfg{
		Check: "C14",
		Schema: func(env *kernel.Env) SchemaOpts {
			return SchemaOpts{Keyless: true, Composite: true, StrPK: !env.Avoid("composite-string-pk-collision"), CI: !env.Avoid("ci-unique-not-enforced"),
				PrefixKeys: true, NotNull: true}
		},
		Kinds:     []string{"insert", "insert", "insert", "insert-ignore", "replace", "odku", "update", "delete"},
		FaultRate: 6, KeyInv: true, MaxSteps: 24,
	})
}

// C16: indexes stay consistent with table data across histories.
func checkC16(env *kernel.Env) {
	runDML(env, dmlCfg{
		Check: "C16",
		Schema: func(env *kernel.Env) SchemaOpts {
			return SchemaOpts{Keyless: true, Composite: true, Defaults: true, StrPK: true, PrefixKeys: true}
		},
		Kinds:     []string{"insert", "insert", "replace", "update", "update", "delete", "delete"},
		FaultRate: 6, IndexReads: true, IndexDDL: true, MaxSteps: 28,
	})
}

// C19: CHECK, NOT NULL, defaults and generated columns hold on stored rows.
func checkC19(env *kernel.Env) {
	runDML(env, dmlCfg{
		Check: "C19",
		Schema: func(env *kernel.Env) SchemaOpts {
			return SchemaOpts{Keyless: true, Checks: true, Defaults: true, NotNull: true, Generated: true,
				NoVirtual: env.Avoid("virtual-generated-dml")}
		},
		Kinds:      []string{"insert", "insert", "insert-ignore", "replace", "odku", "update", "update", "delete"},
		AvoidKinds: avoidIgnoreWithGenerated("generated-stale-under-ignore"),
		FaultRate:  8, ConstrInv: true, MaxSteps: 22,
	})
}

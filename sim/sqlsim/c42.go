package sqlsim

import (
	"fmt"
	"sort"
	"strings"

	sqle "github.com/dolthub/go-mysql-server"
	"github.com/dolthub/go-mysql-server/memory"

	"verif/sim/kernel"
)

// C42: read-only modes block every write and nothing else. The three modes of
// the property are state, not configuration: the engine flag is an atomic the
// integrator flips at run time, READ ONLY is a property of one session's
// current transaction, and the read-only database sits beside a writable one.
// 2-3 sessions take turns; the tape decides who runs, when the engine flag
// flips, when a session starts / ends a READ ONLY or READ WRITE transaction,
// and which statement (reads, DML of every shape, DDL, routine calls, prepared
// statements, writes through triggers, statements against the read-only
// database) it issues. Model: engine flag + per-session transaction kind +
// the set of objects that exist. Oracles after every statement:
//   - a statement issued under a read-only mode leaves the committed state
//     (digest of all schemas, rows, views, triggers, procedures, databases)
//     unchanged,
//   - a write or schema statement issued under a read-only mode is refused,
//   - a read issued under a read-only mode succeeds and returns what the same
//     read returns outside the mode,
//   - a statement issued by a session that is under no read-only mode is never
//     refused with a read-only error (one session's READ ONLY transaction does
//     not leak into another, and ends with COMMIT / ROLLBACK),
//   - temporary tables stay writable inside a READ ONLY transaction.

type c42Stmt struct {
	q     string
	class string // R read, W write, D ddl, T write to a temporary table, RW write to rod, RD ddl on rod
	kind  string
	onOK  func()
}

type c42Sess struct {
	s      *Sess
	tx     string // "", "rw", "ro"
	wrote  bool   // pending writes in an rw transaction
	stale  bool   // another session committed since this session's transaction started
	prep   map[string]string
	manual bool // autocommit off
}

type c42State struct {
	env     *kernel.Env
	w       *World
	obs     *Sess
	ss      []*c42Sess
	engRO   bool
	nextID  int
	nextObj int
	tables  []string // created tables (besides t, u, lg)
	views   []string
	trigs   []string
	procs   []string
	dbs     []string
	cols    []string // columns added to lg
	idx     []string // indexes added on t
}

func checkC42(env *kernel.Env) {
	T := env.T
	// phase 1: a writable engine fills both databases
	w0 := NewWorld(env)
	hist := memory.NewHistoryDatabase("rod")
	pro0 := memory.NewDBProvider(w0.DB, hist)
	w0.Pro = pro0
	w0.Eng.Close()
	w0.Eng = sqle.NewDefault(pro0)
	setup := w0.NewSession()
	for _, q := range []string{
		"CREATE TABLE t (id INT PRIMARY KEY, v INT, s VARCHAR(20))",
		"CREATE TABLE u (id INT PRIMARY KEY AUTO_INCREMENT, w INT)",
		"CREATE TABLE lg (n INT)",
		"INSERT INTO t VALUES (1, 10, 'a'), (2, 20, 'b'), (3, 30, 'c')",
		"INSERT INTO u (w) VALUES (1), (2)",
		"CREATE VIEW vw AS SELECT id, v FROM t WHERE v > 0",
		"CREATE TRIGGER tru AFTER INSERT ON u FOR EACH ROW INSERT INTO lg (n) VALUES (NEW.id)",
		"CREATE PROCEDURE pw() INSERT INTO lg (n) VALUES (99)",
		"CREATE PROCEDURE pr() SELECT COUNT(*) FROM t",
		"CREATE PROCEDURE pc(x INT) BEGIN IF x > 0 THEN UPDATE t SET v = v + 1; ELSE SELECT x; END IF; END",
		// a table whose triggers write no table: the statement that fires them still does
		"CREATE TABLE w2 (id INT PRIMARY KEY, v INT)",
		"INSERT INTO w2 VALUES (1, 1), (2, 2)",
		"CREATE TRIGGER w2i AFTER INSERT ON w2 FOR EACH ROW SET @fired = 1",
		"CREATE TRIGGER w2u BEFORE UPDATE ON w2 FOR EACH ROW SET @fired = 2",
		"CREATE TRIGGER w2d AFTER DELETE ON w2 FOR EACH ROW SET @fired = 3",
		"CREATE TABLE rod.r (id INT PRIMARY KEY, v INT)",
		"INSERT INTO rod.r VALUES (1, 1), (2, 2)",
		"CREATE TABLE rod.r2 (id INT PRIMARY KEY)",
	} {
		setup.MustExec(q)
	}
	setup.End()
	w0.Eng.Close()
	// phase 2: the engine under test sees rod as a read-only database
	pro := memory.NewDBProvider(w0.DB, memory.ReadOnlyDatabase{HistoryDatabase: hist})
	w := &World{Env: env, Pro: pro, DB: w0.DB, Eng: sqle.NewDefault(pro), perTable: map[string]int{}}
	w.rehook()
	defer w.Close()
	st := &c42State{env: env, w: w, nextID: 100, obs: w.NewSession()}
	n := T.Range(2, 3)
	for i := 0; i < n; i++ {
		cs := &c42Sess{s: w.NewSession(), prep: map[string]string{}}
		st.ss = append(st.ss, cs)
		if i == 0 && T.Bool(1, 4) {
			// a session without autocommit: outside START TRANSACTION it is
			// always inside an implicit READ WRITE transaction
			cs.s.MustExec("SET autocommit = 0")
			cs.manual, cs.tx = true, "rw"
		}
	}
	defer func() {
		for _, cs := range st.ss {
			cs.s.End()
		}
		st.obs.End()
	}()
	env.Nontrivial()
	steps := T.Range(8, 40)
	for step := 0; step < steps && !env.Failed(); step++ {
		switch T.Pick(2, 4, 20) {
		case 0:
			st.flipEngine()
		case 1:
			st.txControl(st.ss[T.Draw(len(st.ss))])
		default:
			st.statement(st.ss[T.Draw(len(st.ss))])
		}
	}
}

// digest renders the committed state as seen by the observer session, with the
// engine flag lowered for the duration (the observer's reads are part of the
// harness, not of the run).
func (st *c42State) digest() string {
	was := st.w.Eng.ReadOnly.Load()
	st.w.Eng.ReadOnly.Store(false)
	defer st.w.Eng.ReadOnly.Store(was)
	var out []string
	dbs := st.obs.Exec("SHOW DATABASES")
	if dbs.Err != nil {
		kernel.Harnessf("observer: SHOW DATABASES: %v", dbs.Err)
	}
	var names []string
	for _, r := range dbs.Rows {
		nm := fmt.Sprint(r[0])
		if nm == "information_schema" || nm == "mysql" {
			continue
		}
		names = append(names, nm)
	}
	sort.Strings(names)
	for _, db := range names {
		out = append(out, "db "+db)
		tb := st.obs.Exec("SHOW FULL TABLES FROM `" + db + "`")
		if tb.Err != nil {
			kernel.Harnessf("observer: SHOW FULL TABLES FROM %s: %v", db, tb.Err)
		}
		var tn []string
		for _, r := range tb.Rows {
			tn = append(tn, fmt.Sprint(r[0])+"|"+fmt.Sprint(r[1]))
		}
		sort.Strings(tn)
		for _, e := range tn {
			name, typ, _ := strings.Cut(e, "|")
			if typ == "VIEW" {
				c := st.obs.Exec("SHOW CREATE VIEW `" + db + "`.`" + name + "`")
				if c.Err == nil && len(c.Rows) == 1 {
					out = append(out, fmt.Sprintf("view %s.%s: %v", db, name, c.Rows[0][1]))
				} else {
					out = append(out, fmt.Sprintf("view %s.%s: err %v", db, name, ErrClass(c.Err)))
				}
				continue
			}
			c := st.obs.Exec("SHOW CREATE TABLE `" + db + "`.`" + name + "`")
			if c.Err != nil || len(c.Rows) != 1 {
				kernel.Harnessf("observer: SHOW CREATE TABLE %s.%s: %v", db, name, c.Err)
			}
			out = append(out, fmt.Sprintf("table %s.%s: %v", db, name, c.Rows[0][1]))
			rows := st.obs.Exec("SELECT * FROM `" + db + "`.`" + name + "`")
			if rows.Err != nil {
				kernel.Harnessf("observer: SELECT * FROM %s.%s: %v", db, name, rows.Err)
			}
			out = append(out, FormatRows(rows.Rows, false)...)
		}
		tr := st.obs.Exec("SHOW TRIGGERS FROM `" + db + "`")
		if tr.Err == nil {
			var l []string
			for _, r := range tr.Rows {
				l = append(l, fmt.Sprintf("trigger %v %v %v %v", r[0], r[1], r[2], r[4]))
			}
			sort.Strings(l)
			out = append(out, l...)
		}
	}
	pr := st.obs.Exec("SHOW PROCEDURE STATUS")
	if pr.Err == nil {
		var l []string
		for _, r := range pr.Rows {
			l = append(l, fmt.Sprintf("procedure %v.%v", r[0], r[1]))
		}
		sort.Strings(l)
		out = append(out, l...)
	}
	return strings.Join(out, "\n")
}

func (st *c42State) anyTx() bool {
	for _, cs := range st.ss {
		if cs.tx == "ro" || (cs.tx == "rw" && (!cs.manual || cs.wrote)) {
			return true
		}
	}
	return false
}

func (st *c42State) flipEngine() {
	if st.anyTx() {
		// pending work of a read-write transaction and the engine flag are not
		// ordered by the property; the flag flips between transactions
		return
	}
	st.engRO = !st.engRO
	st.w.Eng.ReadOnly.Store(st.engRO)
	st.env.Kind(fmt.Sprintf("engine-read-only:%v", st.engRO))
	st.env.Logf("ENGINE read-only = %v", st.engRO)
	if st.engRO {
		st.env.Fault("engine-read-only")
	}
}

func (st *c42State) markCommitted(by *c42Sess) {
	for _, o := range st.ss {
		if o != by && o.tx != "" {
			o.stale = true
		}
	}
}

func (st *c42State) txControl(cs *c42Sess) {
	env, T := st.env, st.env.T
	var q string
	switch {
	case cs.tx == "":
		q = []string{"START TRANSACTION READ ONLY", "START TRANSACTION READ ONLY", "START TRANSACTION READ WRITE", "BEGIN", "START TRANSACTION"}[T.Draw(5)]
	default:
		q = []string{"COMMIT", "ROLLBACK", "START TRANSACTION READ ONLY", "START TRANSACTION READ WRITE"}[T.Pick(4, 3, 1, 1)]
	}
	// ending a READ ONLY transaction writes nothing. (Checked when no other
	// session committed since it started: the in-memory backend writes every
	// table a transaction touched back at COMMIT, without concurrency control
	// - "Because we don't support concurrency", memory/session.go - so a stale
	// snapshot replaces the others' commits; that is the backend's documented
	// limit on overlapping transactions, not a write of this transaction.)
	before := ""
	checkEnd := cs.tx == "ro" && !cs.stale
	if checkEnd {
		before = st.digest()
	}
	r := cs.s.Exec(q)
	if checkEnd && r.Err == nil {
		if after := st.digest(); after != before {
			env.Kind("tx-end-ro")
			env.Logf("%s: %s", cs.s.Name, q)
			env.Fail("blocked-write-changes-nothing", "read-only-transaction-end-changes-state", "%s ended its READ ONLY transaction with %q and the committed state changed:\n%s", cs.s.Name, q, diffLines(before, after))
			return
		}
	}
	env.Kind("tx:" + strings.ToLower(strings.ReplaceAll(q, " ", "-")))
	env.Logf("%s: %s -> err=%v", cs.s.Name, q, r.Err)
	if r.Err != nil {
		env.Fail("transaction-control-succeeds", "tx-control-refused:"+strings.ToLower(q), "%s: %s failed: %v", cs.s.Name, q, r.Err)
		return
	}
	// a new START TRANSACTION commits the open one
	// (the in-memory backend writes back every table a READ WRITE transaction
	// touched, read or written: its commit can change what the others see)
	if cs.tx != "" && q != "ROLLBACK" {
		st.markCommitted(cs)
	}
	switch {
	case strings.HasSuffix(q, "READ ONLY"):
		cs.tx = "ro"
		env.Fault("read-only-transaction")
	case q == "COMMIT" || q == "ROLLBACK":
		cs.tx = ""
		if cs.manual {
			cs.tx = "rw"
		}
	default:
		cs.tx = "rw"
	}
	cs.wrote, cs.stale = false, false
}

func (st *c42State) fresh() int { st.nextID++; return st.nextID }
func (st *c42State) obj(p string) string {
	st.nextObj++
	return fmt.Sprintf("%s%d", p, st.nextObj)
}

func pickStr(T *kernel.Tape, l []string) (string, bool) {
	if len(l) == 0 {
		return "", false
	}
	return l[T.Draw(len(l))], true
}

func without(l []string, x string) []string {
	var o []string
	for _, e := range l {
		if e != x {
			o = append(o, e)
		}
	}
	return o
}

func (st *c42State) gen(cs *c42Sess) c42Stmt {
	T := st.env.T
	switch T.Pick(6, 9, 6, 0, 4) { // (the in-memory backend has no temporary tables: class T is not generated)
	case 0: // reads
		qs := []string{
			"SELECT id, v, s FROM t ORDER BY id",
			"SELECT COUNT(*), SUM(v) FROM t",
			"SELECT * FROM vw ORDER BY id",
			"SELECT t.id, r.v FROM t JOIN rod.r r ON t.id = r.id ORDER BY t.id",
			"SELECT * FROM rod.r ORDER BY id",
			"SELECT id FROM t WHERE v >= 10 ORDER BY id FOR UPDATE",
			"SELECT MAX(id) FROM t INTO @m",
			"SHOW TABLES",
			"SHOW CREATE TABLE t",
			"DESCRIBE u",
			"SELECT n FROM lg ORDER BY n",
			"SET @x = 5",
			"SELECT @@autocommit",
			"EXPLAIN SELECT * FROM t WHERE id = 1",
			"SHOW TABLES FROM rod",
			"WITH c AS (SELECT id FROM t) SELECT COUNT(*) FROM c",
			"SELECT (SELECT COUNT(*) FROM u) + 1",
			"PREPARE pr1 FROM 'SELECT COUNT(*) FROM t WHERE id > ?'",
		}
		// statements that fail before they run (parser, name resolution, unknown
		// prepared statement): they must leave the mode - in particular an open
		// READ ONLY transaction - exactly as it was (class X: no verdict on the
		// statement itself, the following writes are the test)
		nReads := len(qs)
		qs = append(qs,
			"SELECT * FROM no_such_table",
			"SELEC 1",
			"SELECT no_such_column FROM t",
			"EXECUTE no_such_statement",
			"INSERT INTO no_such_table VALUES (1)",
		)
		if i := T.Draw(len(qs)); i >= nReads {
			return c42Stmt{q: qs[i], class: "X", kind: "failing-statement"}
		} else {
			return c42Stmt{q: qs[i], class: "R", kind: "read"}
		}
	case 1: // DML on d
		if T.Bool(1, 9) {
			// a routine that writes on another branch only, or not at all: the
			// engine flag is checked before the routine runs and the engine
			// treats every SQL routine as possibly writing (sql.Procedure has a
			// ReadOnly declaration for external procedures only), so under the
			// engine flag refusing it is as acceptable as running it (class X:
			// only the state is checked). Inside a READ ONLY transaction the
			// statements of the routine are checked one by one and it must run.
			q := []string{"CALL pc(0)", "CALL pr()"}[T.Draw(2)]
			if !st.engRO {
				return c42Stmt{q: q, class: "R", kind: "call-not-writing"}
			}
			return c42Stmt{q: q, class: "X", kind: "call-not-writing"}
		}
		if T.Bool(1, 6) {
			return c42Stmt{q: []string{
				fmt.Sprintf("INSERT INTO w2 VALUES (%d, 1)", st.fresh()),
				"UPDATE w2 SET v = v + 1 WHERE id = 1",
				"DELETE FROM w2 WHERE id > 2",
				"REPLACE INTO w2 VALUES (2, 9)",
			}[T.Draw(4)], class: "W", kind: "write-with-non-writing-trigger"}
		}
		switch T.Draw(17) {
		case 0:
			return c42Stmt{q: fmt.Sprintf("INSERT INTO t VALUES (%d, 1, 'n')", st.fresh()), class: "W", kind: "insert"}
		case 1:
			return c42Stmt{q: fmt.Sprintf("INSERT INTO t (id, v) SELECT id + %d, v FROM rod.r", st.fresh()*10), class: "W", kind: "insert-select"}
		case 2:
			return c42Stmt{q: "INSERT INTO t VALUES (1, 0, 'd') ON DUPLICATE KEY UPDATE v = v + 1", class: "W", kind: "insert-odku"}
		case 3:
			return c42Stmt{q: "REPLACE INTO t VALUES (2, 5, 'r')", class: "W", kind: "replace"}
		case 4:
			return c42Stmt{q: "UPDATE t SET v = v + 1 WHERE id = 1", class: "W", kind: "update"}
		case 5:
			return c42Stmt{q: "UPDATE t SET v = v + 1", class: "W", kind: "update-all"}
		case 6:
			return c42Stmt{q: "UPDATE t JOIN u ON t.id = u.id SET t.v = t.v + 2", class: "W", kind: "update-join"}
		case 7:
			return c42Stmt{q: fmt.Sprintf("INSERT INTO lg (n) VALUES (%d)", st.fresh()), class: "W", kind: "insert"}
		case 8:
			return c42Stmt{q: "DELETE FROM lg", class: "W", kind: "delete-all"}
		case 9:
			return c42Stmt{q: "TRUNCATE TABLE lg", class: "D", kind: "truncate"} // DDL in MySQL and in the engine (plan.IsDDLNode)
		case 10:
			return c42Stmt{q: "INSERT INTO u (w) VALUES (7)", class: "W", kind: "insert-trigger"}
		case 11:
			return c42Stmt{q: "CALL pw()", class: "W", kind: "call-writing"}
		case 12:
			return c42Stmt{q: "CALL pc(1)", class: "W", kind: "call-branch-writing"}
		case 13:
			return c42Stmt{q: "DELETE FROM t WHERE id IN (SELECT id + 100 FROM rod.r) OR id > 100", class: "W", kind: "delete-subquery"}
		case 14:
			if cs.prep["w"] == "" {
				return c42Stmt{q: "PREPARE pw1 FROM 'INSERT INTO lg (n) VALUES (5)'", class: "R", kind: "prepare-write", onOK: func() { cs.prep["w"] = "pw1" }}
			}
			return c42Stmt{q: "EXECUTE pw1", class: "W", kind: "execute-write"}
		case 15:
			return c42Stmt{q: "INSERT INTO lg (n) SELECT id FROM t", class: "W", kind: "insert-select"}
		default:
			return c42Stmt{q: "UPDATE u SET w = w + 1 ORDER BY id LIMIT 1", class: "W", kind: "update"}
		}
	case 2: // DDL on d
		switch T.Draw(16) {
		case 0:
			n := st.obj("n")
			return c42Stmt{q: "CREATE TABLE " + n + " (a INT PRIMARY KEY, b INT)", class: "D", kind: "create-table", onOK: func() { st.tables = append(st.tables, n) }}
		case 1:
			n := st.obj("n")
			return c42Stmt{q: "CREATE TABLE " + n + " LIKE t", class: "D", kind: "create-table-like", onOK: func() { st.tables = append(st.tables, n) }}
		case 2:
			n := st.obj("n")
			return c42Stmt{q: "CREATE TABLE " + n + " AS SELECT id, v FROM t", class: "D", kind: "create-table-as", onOK: func() { st.tables = append(st.tables, n) }}
		case 3:
			if n, ok := pickStr(T, st.tables); ok {
				return c42Stmt{q: "DROP TABLE " + n, class: "D", kind: "drop-table", onOK: func() { st.tables = without(st.tables, n) }}
			}
		case 4:
			c := st.obj("c")
			return c42Stmt{q: "ALTER TABLE lg ADD COLUMN " + c + " INT", class: "D", kind: "add-column", onOK: func() { st.cols = append(st.cols, c) }}
		case 5:
			if c, ok := pickStr(T, st.cols); ok {
				return c42Stmt{q: "ALTER TABLE lg DROP COLUMN " + c, class: "D", kind: "drop-column", onOK: func() { st.cols = without(st.cols, c) }}
			}
		case 6:
			i := st.obj("ix")
			q := "CREATE INDEX " + i + " ON t (v)"
			if T.Bool(1, 2) {
				q = "ALTER TABLE t ADD INDEX " + i + " (v, s)"
			}
			return c42Stmt{q: q, class: "D", kind: "create-index", onOK: func() { st.idx = append(st.idx, i) }}
		case 7:
			if i, ok := pickStr(T, st.idx); ok {
				return c42Stmt{q: "DROP INDEX " + i + " ON t", class: "D", kind: "drop-index", onOK: func() { st.idx = without(st.idx, i) }}
			}
		case 8:
			if n, ok := pickStr(T, st.tables); ok {
				m := st.obj("n")
				return c42Stmt{q: "RENAME TABLE " + n + " TO " + m, class: "D", kind: "rename-table", onOK: func() { st.tables = append(without(st.tables, n), m) }}
			}
		case 9:
			v := st.obj("v")
			return c42Stmt{q: "CREATE VIEW " + v + " AS SELECT id FROM t", class: "D", kind: "create-view", onOK: func() { st.views = append(st.views, v) }}
		case 10:
			if v, ok := pickStr(T, st.views); ok {
				return c42Stmt{q: "DROP VIEW " + v, class: "D", kind: "drop-view", onOK: func() { st.views = without(st.views, v) }}
			}
			return c42Stmt{q: "CREATE OR REPLACE VIEW vw AS SELECT id, v FROM t WHERE v >= 0", class: "D", kind: "replace-view"}
		case 11:
			g := st.obj("tg")
			return c42Stmt{q: "CREATE TRIGGER " + g + " BEFORE UPDATE ON u FOR EACH ROW SET NEW.w = NEW.w", class: "D", kind: "create-trigger", onOK: func() { st.trigs = append(st.trigs, g) }}
		case 12:
			if g, ok := pickStr(T, st.trigs); ok {
				return c42Stmt{q: "DROP TRIGGER " + g, class: "D", kind: "drop-trigger", onOK: func() { st.trigs = without(st.trigs, g) }}
			}
		case 13:
			p := st.obj("p")
			return c42Stmt{q: "CREATE PROCEDURE " + p + "() SELECT 1", class: "D", kind: "create-procedure", onOK: func() { st.procs = append(st.procs, p) }}
		case 14:
			if p, ok := pickStr(T, st.procs); ok {
				return c42Stmt{q: "DROP PROCEDURE " + p, class: "D", kind: "drop-procedure", onOK: func() { st.procs = without(st.procs, p) }}
			}
		default:
			if d, ok := pickStr(T, st.dbs); ok && T.Bool(1, 2) {
				return c42Stmt{q: "DROP DATABASE " + d, class: "D", kind: "drop-database", onOK: func() { st.dbs = without(st.dbs, d) }}
			}
			d := st.obj("db")
			return c42Stmt{q: "CREATE DATABASE " + d, class: "D", kind: "create-database", onOK: func() { st.dbs = append(st.dbs, d) }}
		}
		return c42Stmt{q: "ALTER TABLE u AUTO_INCREMENT = 50", class: "D", kind: "alter-auto-increment"}
	case 3: // temporary table
		return c42Stmt{q: []string{
			fmt.Sprintf("INSERT INTO tmp VALUES (%d, 1)", st.fresh()),
			"UPDATE tmp SET b = b + 1",
			"DELETE FROM tmp WHERE a < 0",
		}[T.Draw(3)], class: "T", kind: "temp-write"}
	default: // the read-only database
		qs := []c42Stmt{
			{q: fmt.Sprintf("INSERT INTO rod.r VALUES (%d, 1)", st.fresh()), class: "RW", kind: "rod-insert"},
			{q: "UPDATE rod.r SET v = v + 1", class: "RW", kind: "rod-update"},
			{q: "DELETE FROM rod.r WHERE id = 1", class: "RW", kind: "rod-delete"},
			{q: "REPLACE INTO rod.r VALUES (1, 9)", class: "RW", kind: "rod-replace"},
			{q: "TRUNCATE TABLE rod.r", class: "RW", kind: "rod-truncate"},
			{q: "INSERT INTO rod.r2 SELECT id FROM t", class: "RW", kind: "rod-insert-select"},
			{q: "UPDATE t JOIN rod.r r ON t.id = r.id SET r.v = t.v + 1", class: "RW", kind: "rod-update-join-second"},
			{q: "UPDATE rod.r r JOIN t ON t.id = r.id SET r.v = t.v + 1", class: "RW", kind: "rod-update-join-first"},
			{q: "DELETE r FROM t JOIN rod.r r ON t.id = r.id", class: "RW", kind: "rod-delete-join"},
			{q: "INSERT INTO rod.r (id, v) VALUES (1, 5) ON DUPLICATE KEY UPDATE v = v + 1", class: "RW", kind: "rod-insert-odku"},
			{q: "CREATE TABLE rod." + st.obj("x") + " (a INT PRIMARY KEY)", class: "RD", kind: "rod-create-table"},
			{q: "CREATE TABLE rod." + st.obj("x") + " AS SELECT * FROM t", class: "RD", kind: "rod-create-table-as"},
			{q: "DROP TABLE rod.r2", class: "RD", kind: "rod-drop-table"},
			{q: "ALTER TABLE rod.r ADD COLUMN z INT", class: "RD", kind: "rod-add-column"},
			{q: "CREATE INDEX rix ON rod.r (v)", class: "RD", kind: "rod-create-index"},
			{q: "RENAME TABLE rod.r2 TO rod.r3", class: "RD", kind: "rod-rename-table"},
			{q: "CREATE VIEW rod.rv AS SELECT id FROM rod.r", class: "RD", kind: "rod-create-view"},
			{q: "CREATE TRIGGER rod.rtg BEFORE INSERT ON rod.r FOR EACH ROW SET NEW.v = 1", class: "RD", kind: "rod-create-trigger"},
			{q: "ALTER TABLE rod.r RENAME COLUMN v TO vv", class: "RD", kind: "rod-rename-column"},
			{q: "ALTER TABLE rod.r DROP PRIMARY KEY", class: "RD", kind: "rod-drop-pk"},
		}
		return qs[T.Draw(len(qs))]
	}
}

func isReadOnlyErr(err error) bool {
	if err == nil {
		return false
	}
	m := strings.ToLower(err.Error())
	return strings.Contains(m, "read only") || strings.Contains(m, "read-only") || strings.Contains(m, "readonly")
}

func (st *c42State) statement(cs *c42Sess) {
	env := st.env
	g := st.gen(cs)
	if g.class == "T" {
		if r := cs.s.Exec("SELECT 1 FROM tmp LIMIT 1"); r.Err != nil {
			return // this session has no temporary table
		}
	}
	mode := ""
	switch {
	case g.class == "RW" || g.class == "RD":
		mode = "database"
	case st.engRO:
		mode = "engine"
	case cs.tx == "ro":
		mode = "transaction"
	}
	if mode == "" && g.class == "D" && st.anyTx() {
		// DDL commits implicitly; what that does to the open transactions of
		// this and the other sessions is C17's subject. Here DDL runs between
		// transactions.
		return
	}
	ddlInRoTx := mode == "transaction" && g.class == "D"
	if ddlInRoTx && env.Avoid("ddl-in-read-only-transaction") {
		return
	}
	var before, baseline string
	var baseErr error
	if mode != "" {
		before = st.digest()
		if g.class == "R" && !strings.HasPrefix(g.q, "PREPARE") && !((cs.tx != "" && cs.stale) || cs.manual) {
			was := st.w.Eng.ReadOnly.Load()
			st.w.Eng.ReadOnly.Store(false)
			b := st.obs.Exec(g.q)
			st.w.Eng.ReadOnly.Store(was)
			baseline, baseErr = strings.Join(FormatRows(b.Rows, true), ";"), b.Err
		}
	}
	r, site := cs.s.ExecRecover(g.q)
	if cs.manual {
		// any statement of a session without autocommit opens its implicit
		// transaction and may take table snapshots: from here on it counts as
		// open (no DDL by others, no engine flip) until it commits
		cs.wrote = true
	}
	env.Kind(fmt.Sprintf("%s/%s/%s:%v", orDash(mode), g.class, g.kind, r.Err == nil))
	env.Logf("%s [tx=%s engineRO=%v]: %s -> err=%v", cs.s.Name, orDash(cs.tx), st.engRO, g.q, r.Err)
	if site != "" {
		env.Fail("no-panic", "panic:"+site, "%s: %q panicked at %s: %v", cs.s.Name, g.q, site, r.Err)
		return
	}
	if mode == "" {
		// nothing else is blocked
		if isReadOnlyErr(r.Err) {
			env.Fail("nothing-else-is-blocked", "refused-outside-read-only-mode:"+g.kind, "%s is under no read-only mode (engine flag off, transaction %q) and %q was refused: %v", cs.s.Name, orDash(cs.tx), g.q, r.Err)
			return
		}
		if r.Err != nil {
			env.Probe("rw-statement-failed:" + g.kind)
			return
		}
		if g.onOK != nil {
			g.onOK()
		}
		if g.class == "W" || g.class == "D" {
			if cs.tx == "rw" {
				cs.wrote = true
			} else {
				st.markCommitted(cs)
			}
		}
		return
	}
	env.Fault("statement-under-" + mode + "-read-only:" + g.class)
	// under a read-only mode
	if after := st.digest(); after != before {
		env.Fail("blocked-write-changes-nothing", c42Class(ddlInRoTx, "state-changed-under-read-only:"+mode+":", g.kind), "%s ran %q under %s read-only mode (err=%v) and the committed state changed:\n%s", cs.s.Name, g.q, mode, r.Err, diffLines(before, after))
		return
	}
	switch g.class {
	case "R":
		if r.Err != nil {
			if baseErr != nil {
				return
			}
			env.Fail("reads-succeed-under-read-only", "read-refused:"+mode+":"+firstWords(g.q, 2), "%s ran %q under %s read-only mode and it failed: %v", cs.s.Name, g.q, mode, r.Err)
			return
		}
		if g.onOK != nil {
			g.onOK()
		}
		if baseErr == nil && !strings.HasPrefix(g.q, "PREPARE") && !((cs.tx != "" && cs.stale) || cs.manual) && !strings.Contains(g.q, "@@") {
			if got := strings.Join(FormatRows(r.Rows, true), ";"); got != baseline {
				env.Fail("reads-return-normal-results", "read-differs:"+mode+":"+firstWords(g.q, 2), "%s ran %q under %s read-only mode and got [%s]; outside the mode it returns [%s]", cs.s.Name, g.q, mode, got, baseline)
			}
		}
	case "X":
	case "T":
		if mode == "transaction" && r.Err != nil {
			env.Fail("temporary-tables-stay-writable", "temp-write-refused", "%s ran %q on its temporary table inside a READ ONLY transaction and it failed: %v", cs.s.Name, g.q, r.Err)
		}
	default:
		if r.Err == nil {
			env.Fail("writes-are-refused", c42Class(ddlInRoTx, "write-accepted:"+mode+":", g.kind), "%s ran %q under %s read-only mode and it was accepted (the state did not change)", cs.s.Name, g.q, mode)
		}
	}
}

func orDash(s string) string {
	if s == "" {
		return "-"
	}
	return s
}

func diffLines(a, b string) string {
	am := map[string]int{}
	for _, l := range strings.Split(a, "\n") {
		am[l]++
	}
	var out []string
	for _, l := range strings.Split(b, "\n") {
		if am[l] > 0 {
			am[l]--
			continue
		}
		out = append(out, "+ "+l)
	}
	for _, l := range strings.Split(a, "\n") {
		if am[l] > 0 {
			am[l]--
			out = append(out, "- "+l)
		}
	}
	if len(out) > 12 {
		out = out[:12]
	}
	return strings.Join(out, "\n")
}

// c42Class puts the runs that issue DDL inside a READ ONLY transaction (which
// the engine accepts on purpose: known finding) into their own family.
func c42Class(ddlInRoTx bool, prefix, kind string) string {
	if ddlInRoTx {
		return "ddl-in-read-only-transaction/" + kind
	}
	return prefix + kind
}

package sqlsim

import (
	"fmt"
	"strings"

	"github.com/dolthub/go-mysql-server/sql"

	"verif/sim/kernel"
)

// Expr is a value expression of the fragment.
type Expr struct {
	Kind string // const, col, colplus (col + C), values (VALUES(col)), default
	Col  int
	C    Val
}

// Assign is col = expr.
type Assign struct {
	Col int
	E   Expr
}

// Pred is a predicate of the fragment (three-valued).
type Pred struct {
	Kind string // true, cmp, isnull, notnull, in, and, or
	Col  int
	Op   string // =, <>, <, <=, >, >=
	C    Val
	List []Val
	L, R *Pred
}

// Stmt is a structured DML statement.
type Stmt struct {
	Kind    string // insert, insert-ignore, replace, odku, insert-select, update, update-ignore, delete
	Table   *TableDef
	Cols    []int
	Rows    [][]Expr // const or default
	Set     []Assign
	Where   *Pred
	OrderPK int // 0 none, 1 asc, -1 desc (by all pk columns)
	Limit   int // <0 none
	Src     *TableDef
	SrcCols []int
}

func (e Expr) SQL(t *TableDef) string {
	switch e.Kind {
	case "const":
		return Lit(e.C)
	case "col":
		return "`" + t.Cols[e.Col].Name + "`"
	case "colplus":
		return fmt.Sprintf("`%s` + %s", t.Cols[e.Col].Name, Lit(e.C))
	case "values":
		return "VALUES(`" + t.Cols[e.Col].Name + "`)"
	case "default":
		return "DEFAULT"
	}
	return "NULL"
}

func (p *Pred) SQL(t *TableDef) string {
	if p == nil {
		return "TRUE"
	}
	switch p.Kind {
	case "true":
		return "TRUE"
	case "cmp":
		return fmt.Sprintf("`%s` %s %s", t.Cols[p.Col].Name, p.Op, Lit(p.C))
	case "isnull":
		return fmt.Sprintf("`%s` IS NULL", t.Cols[p.Col].Name)
	case "notnull":
		return fmt.Sprintf("`%s` IS NOT NULL", t.Cols[p.Col].Name)
	case "in":
		var parts []string
		for _, v := range p.List {
			parts = append(parts, Lit(v))
		}
		return fmt.Sprintf("`%s` IN (%s)", t.Cols[p.Col].Name, strings.Join(parts, ","))
	case "and":
		return "(" + p.L.SQL(t) + " AND " + p.R.SQL(t) + ")"
	case "or":
		return "(" + p.L.SQL(t) + " OR " + p.R.SQL(t) + ")"
	}
	return "TRUE"
}

func assignsSQL(t *TableDef, as []Assign) string {
	var parts []string
	for _, a := range as {
		parts = append(parts, "`"+t.Cols[a.Col].Name+"` = "+a.E.SQL(t))
	}
	return strings.Join(parts, ", ")
}

func (s *Stmt) orderLimitSQL() string {
	out := ""
	if s.OrderPK != 0 && s.Table.HasPK {
		var cols []string
		for _, ci := range s.Table.PK().Cols {
			c := "`" + s.Table.Cols[ci].Name + "`"
			if s.OrderPK < 0 {
				c += " DESC"
			}
			cols = append(cols, c)
		}
		out += " ORDER BY " + strings.Join(cols, ", ")
	}
	if s.Limit >= 0 {
		out += fmt.Sprintf(" LIMIT %d", s.Limit)
	}
	return out
}

// SQL renders the statement.
func (s *Stmt) SQL() string {
	t := s.Table
	colList := func(cols []int, tt *TableDef) string {
		var names []string
		for _, ci := range cols {
			names = append(names, "`"+tt.Cols[ci].Name+"`")
		}
		return strings.Join(names, ",")
	}
	switch s.Kind {
	case "insert", "insert-ignore", "replace", "odku":
		verb := "INSERT INTO"
		if s.Kind == "insert-ignore" {
			verb = "INSERT IGNORE INTO"
		} else if s.Kind == "replace" {
			verb = "REPLACE INTO"
		}
		var rows []string
		for _, r := range s.Rows {
			var vals []string
			for _, e := range r {
				vals = append(vals, e.SQL(t))
			}
			rows = append(rows, "("+strings.Join(vals, ",")+")")
		}
		q := fmt.Sprintf("%s `%s` (%s) VALUES %s", verb, t.Name, colList(s.Cols, t), strings.Join(rows, ","))
		if s.Kind == "odku" {
			q += " ON DUPLICATE KEY UPDATE " + assignsSQL(t, s.Set)
		}
		return q
	case "insert-select":
		q := fmt.Sprintf("INSERT INTO `%s` (%s) SELECT %s FROM `%s`", t.Name, colList(s.Cols, t), colList(s.SrcCols, s.Src), s.Src.Name)
		if s.Where != nil {
			q += " WHERE " + s.Where.SQL(s.Src)
		}
		return q
	case "update", "update-ignore":
		verb := "UPDATE"
		if s.Kind == "update-ignore" {
			verb = "UPDATE IGNORE"
		}
		q := fmt.Sprintf("%s `%s` SET %s", verb, t.Name, assignsSQL(t, s.Set))
		if s.Where != nil {
			q += " WHERE " + s.Where.SQL(t)
		}
		return q + s.orderLimitSQL()
	case "delete":
		q := fmt.Sprintf("DELETE FROM `%s`", t.Name)
		if s.Where != nil {
			q += " WHERE " + s.Where.SQL(t)
		}
		return q + s.orderLimitSQL()
	}
	return "SELECT 1"
}

// GenPred draws a predicate over table t.
func GenPred(T *kernel.Tape, t *TableDef, depth int) *Pred {
	if depth < 2 && T.Bool(1, 5) {
		k := "and"
		if T.Bool(1, 2) {
			k = "or"
		}
		return &Pred{Kind: k, L: GenPred(T, t, depth+1), R: GenPred(T, t, depth+1)}
	}
	ci := T.Draw(len(t.Cols))
	c := &t.Cols[ci]
	switch T.Pick(6, 1, 1, 2) {
	case 0:
		return &Pred{Kind: "cmp", Col: ci, Op: []string{"=", "<", ">=", "<>", ">", "<="}[T.Draw(6)], C: GenVal(T, c, false)}
	case 1:
		return &Pred{Kind: "isnull", Col: ci}
	case 2:
		return &Pred{Kind: "notnull", Col: ci}
	default:
		if c.Kind == KStr && c.CI {
			// IN over a case-insensitive column is evaluated without the collation
			// by the engine (observed: `a` IN ('ab') does not match 'AB' while
			// `a` = 'ab' does); that is query semantics (C02), outside what these
			// checks decide, so it is not generated
			return &Pred{Kind: "cmp", Col: ci, Op: "=", C: GenVal(T, c, false)}
		}
		n := T.Range(1, 3)
		var l []Val
		for i := 0; i < n; i++ {
			l = append(l, GenVal(T, c, false))
		}
		return &Pred{Kind: "in", Col: ci, List: l}
	}
}

// GenOpts shapes statement generation.
type GenOpts struct {
	MaxRows      int
	Kinds        []string // allowed statement kinds (weights equal)
	AllowKeyUpd  bool     // UPDATE may assign key columns
	Src          *TableDef
	PlantFailure bool // plant natural failures at a drawn row position
	NoDefaultKw  bool
}

// GenStmt draws a DML statement against t. cur are the current rows of t as
// last observed (used to plant collisions); may be nil.
func GenStmt(T *kernel.Tape, t *TableDef, cur []sql.Row, o GenOpts) *Stmt {
	kind := o.Kinds[T.Draw(len(o.Kinds))]
	s := &Stmt{Kind: kind, Table: t, Limit: -1}
	switch kind {
	case "insert", "insert-ignore", "replace", "odku":
		s.Cols = t.InsertableCols()
		if T.Bool(1, 5) && len(s.Cols) > 2 {
			// omit one defaulted / nullable non-key column
			for i := len(s.Cols) - 1; i > 0; i-- {
				c := t.Cols[s.Cols[i]]
				if (c.HasDef || c.Nullable) && !t.inPK(s.Cols[i]) {
					s.Cols = append(append([]int{}, s.Cols[:i]...), s.Cols[i+1:]...)
					break
				}
			}
		}
		max := o.MaxRows
		if max < 1 {
			max = 6
		}
		n := T.Range(1, max)
		for i := 0; i < n; i++ {
			var row []Expr
			for _, ci := range s.Cols {
				c := &t.Cols[ci]
				if c.AutoInc && T.Bool(1, 2) {
					row = append(row, Expr{Kind: "const", C: nil})
					continue
				}
				if c.HasDef && !o.NoDefaultKw && T.Bool(1, 8) {
					row = append(row, Expr{Kind: "default"})
					continue
				}
				row = append(row, Expr{Kind: "const", C: GenVal(T, c, true)})
			}
			s.Rows = append(s.Rows, row)
		}
		if o.PlantFailure && T.Bool(1, 2) {
			plantFailure(T, s, cur)
		}
		if kind == "odku" {
			s.Set = genAssigns(T, t, false, true)
		}
	case "insert-select":
		s.Src = o.Src
		s.Cols = t.InsertableCols()
		s.SrcCols = s.Cols
		if T.Bool(1, 2) {
			s.Where = GenPred(T, o.Src, 1)
		}
	case "update", "update-ignore":
		s.Set = genAssigns(T, t, o.AllowKeyUpd, false)
		if T.Bool(4, 5) {
			s.Where = GenPred(T, t, 0)
		}
	case "delete":
		if T.Bool(5, 6) {
			s.Where = GenPred(T, t, 0)
		}
	}
	return s
}

func (t *TableDef) inPK(ci int) bool {
	if !t.HasPK {
		return false
	}
	for _, k := range t.Keys[0].Cols {
		if k == ci {
			return true
		}
	}
	return false
}

func (t *TableDef) inUnique(ci int) bool {
	for _, k := range t.Keys {
		if k.Unique {
			for _, c := range k.Cols {
				if c == ci {
					return true
				}
			}
		}
	}
	return false
}

func genAssigns(T *kernel.Tape, t *TableDef, allowKey, odku bool) []Assign {
	var cand []int
	for _, ci := range t.InsertableCols() {
		if t.inPK(ci) && !allowKey {
			continue
		}
		cand = append(cand, ci)
	}
	if len(cand) == 0 {
		cand = t.InsertableCols()
	}
	n := 1
	if len(cand) > 1 && T.Bool(1, 4) {
		n = 2
	}
	var out []Assign
	used := map[int]bool{}
	for i := 0; i < n; i++ {
		ci := cand[T.Draw(len(cand))]
		if used[ci] {
			continue
		}
		used[ci] = true
		c := &t.Cols[ci]
		var e Expr
		switch {
		case odku && T.Bool(1, 2):
			e = Expr{Kind: "values", Col: ci}
		case c.Kind == KInt && T.Bool(1, 2):
			e = Expr{Kind: "colplus", Col: ci, C: []int64{1, 1, 5, 100, -1}[T.Draw(5)]}
		default:
			e = Expr{Kind: "const", C: GenVal(T, c, true)}
		}
		out = append(out, Assign{Col: ci, E: e})
	}
	// a generated column may be assigned DEFAULT; put ahead of its source column
	// it must still end up computed from the source's new value
	for ci := range t.Cols {
		if t.Cols[ci].GenFrom >= 0 && T.Bool(1, 4) {
			out = append([]Assign{{Col: ci, E: Expr{Kind: "default"}}}, out...)
			break
		}
	}
	return out
}

// plantFailure makes row r of a multi-row insert fail naturally.
func plantFailure(T *kernel.Tape, s *Stmt, cur []sql.Row) {
	t := s.Table
	r := T.Draw(len(s.Rows))
	pos := func(ci int) int {
		for i, c := range s.Cols {
			if c == ci {
				return i
			}
		}
		return -1
	}
	switch T.Draw(4) {
	case 0: // duplicate of an existing row's or an earlier row's primary key
		if !t.HasPK {
			return
		}
		if r > 0 && T.Bool(1, 2) {
			for _, ci := range t.PK().Cols {
				if p := pos(ci); p >= 0 {
					s.Rows[r][p] = s.Rows[r-1][p]
				}
			}
		} else if len(cur) > 0 {
			src := cur[T.Draw(len(cur))]
			for _, ci := range t.PK().Cols {
				if p := pos(ci); p >= 0 {
					s.Rows[r][p] = Expr{Kind: "const", C: toVal(src[ci])}
				}
			}
		}
	case 1: // NULL into NOT NULL
		for _, ci := range s.Cols {
			if !t.Cols[ci].Nullable && !t.Cols[ci].AutoInc {
				s.Rows[r][pos(ci)] = Expr{Kind: "const", C: nil}
				return
			}
		}
	case 2: // out of range / too long
		for _, ci := range s.Cols {
			c := t.Cols[ci]
			if t.inPK(ci) {
				continue
			}
			if c.Kind == KInt && c.Max < 1<<40 {
				// just above the maximum or just below the minimum
				v := c.Max + 1
				if T.Bool(1, 2) {
					v = c.Min - 1
				}
				s.Rows[r][pos(ci)] = Expr{Kind: "const", C: v}
				return
			}
			if c.Kind == KStr {
				s.Rows[r][pos(ci)] = Expr{Kind: "const", C: strings.Repeat("b", c.Len+1)}
				return
			}
		}
	case 3: // CHECK false
		for _, ck := range t.Checks {
			if ck.BIsCol {
				continue
			}
			if p := pos(ck.A); p >= 0 {
				var v int64
				switch ck.Op {
				case "<":
					v = ck.C
				case "<>":
					v = ck.C
				case ">=":
					v = ck.C - 1
				}
				if v >= t.Cols[ck.A].Min {
					s.Rows[r][p] = Expr{Kind: "const", C: v}
				}
				return
			}
		}
	}
}

// toVal converts an engine value to a model value.
func toVal(v any) Val {
	switch x := v.(type) {
	case nil:
		return nil
	case int8:
		return int64(x)
	case int16:
		return int64(x)
	case int32:
		return int64(x)
	case int64:
		return x
	case int:
		return int64(x)
	case uint8:
		return int64(x)
	case uint16:
		return int64(x)
	case uint32:
		return int64(x)
	case uint64:
		return int64(x)
	case string:
		return x
	case []byte:
		return string(x)
	}
	return fmt.Sprint(v)
}

package sqlsim

import (
	"fmt"
	"sort"
	"strings"

	"verif/sim/kernel"
)

// C11: repeated queries reflect the current data; no stale results. A pool of
// query texts (uncorrelated and correlated subqueries, IN / EXISTS, a CTE used
// twice, joins, grouping, a view) is re-executed - plain, through SQL
// PREPARE/EXECUTE, and with a user-variable parameter - between DML and DDL
// issued by the same and by other sessions, around failed statements,
// rollbacks and reconnects. Oracles: (1) the warm session's result equals the
// result of the same text on a freshly opened session at the same instant;
// (2) it equals the result on a freshly built engine loaded with the current
// table contents (catches state shared by all sessions); (3) twice in a row
// with nothing in between gives the same result.

var c11Queries = []string{
	"SELECT id, a, b FROM t1 WHERE a IN (SELECT x FROM t2)",
	"SELECT id, (SELECT COUNT(*) FROM t2 WHERE t2.x = t1.a) FROM t1",
	"WITH c AS (SELECT a, COUNT(*) AS n FROM t1 GROUP BY a) SELECT c1.a, c2.n FROM c c1 JOIN c c2 ON c1.a = c2.a",
	"SELECT t1.id, t2.id FROM t1 JOIN t2 ON t1.a = t2.x",
	"SELECT * FROM v1",
	"SELECT a, SUM(b), COUNT(*) FROM t1 GROUP BY a",
	"SELECT id FROM t1 WHERE EXISTS (SELECT 1 FROM t2 WHERE t2.x = t1.a AND t2.id > 1)",
	"SELECT id FROM t1 WHERE a NOT IN (SELECT x FROM t2 WHERE x IS NOT NULL)",
	"SELECT (SELECT MAX(x) FROM t2), (SELECT COUNT(*) FROM t1)",
	"SELECT t2.x, COUNT(t1.id) FROM t2 LEFT JOIN t1 ON t1.a = t2.x GROUP BY t2.x",
}

func c11Setup(s *Sess) {
	s.MustExec("CREATE TABLE t1 (id INT PRIMARY KEY, a INT, b INT, KEY ka (a))")
	s.MustExec("CREATE TABLE t2 (id INT PRIMARY KEY, x INT)")
	s.MustExec("CREATE VIEW v1 AS SELECT t1.id, t1.a, t2.x FROM t1 JOIN t2 ON t1.b = t2.id")
	// a sequence generator: the trigger's uncorrelated subquery reads a table
	// that the same trigger changes for every row of a multi-row statement
	s.MustExec("CREATE TABLE ctr (k INT PRIMARY KEY, v INT)")
	s.MustExec("INSERT INTO ctr VALUES (1, 0)")
	s.MustExec("CREATE TABLE sq (id INT PRIMARY KEY, seq INT)")
	s.MustExec("CREATE TRIGGER sqt BEFORE INSERT ON sq FOR EACH ROW BEGIN UPDATE ctr SET v = v + 1 WHERE k = 1; SET NEW.seq = (SELECT v FROM ctr WHERE k = 1); END")
}

func checkC11(env *kernel.Env) {
	T := env.T
	w := NewWorld(env)
	defer w.Close()
	nsess := T.Range(2, 3)
	var sess []*Sess
	for i := 0; i < nsess; i++ {
		sess = append(sess, w.NewSession())
	}
	env.Nontrivial()
	c11Setup(sess[0])
	nq := T.Range(3, 6)
	var pool []string
	for len(pool) < nq {
		q := c11Queries[T.Draw(len(c11Queries))]
		dup := false
		for _, p := range pool {
			dup = dup || p == q
		}
		if !dup {
			pool = append(pool, q)
		}
	}
	prepared := map[*Sess]map[int]bool{}
	inTxn := map[*Sess]bool{}
	anyTxn := func() *Sess {
		for _, s := range sess {
			if inTxn[s] {
				return s
			}
		}
		return nil
	}
	render := func(r *Res) string {
		if r.Err != nil {
			return "ERROR " + ErrClass(r.Err)
		}
		return strings.Join(FormatRows(r.Rows, false), " ")
	}
	// runQuery executes pool[qi] on s in one of three ways
	runQuery := func(s *Sess, qi int, how int) (string, string) {
		q := pool[qi]
		switch how {
		case 1: // SQL PREPARE once, EXECUTE many times
			if prepared[s] == nil {
				prepared[s] = map[int]bool{}
			}
			name := fmt.Sprintf("p%d", qi)
			if !prepared[s][qi] {
				if r := s.Exec(fmt.Sprintf("PREPARE %s FROM '%s'", name, strings.ReplaceAll(q, "'", "''"))); r.Err != nil {
					return "ERROR prepare " + ErrClass(r.Err), "prepare"
				}
				prepared[s][qi] = true
				env.Probe("prepared")
			}
			return render(s.Exec("EXECUTE " + name)), "execute"
		default:
			return render(s.Exec(q)), "plain"
		}
	}
	freshEngine := func() map[int]string {
		// a new engine loaded with the committed contents
		env2 := kernel.NewEnv(kernel.NewReplayTape(nil), env.Tier)
		w2 := NewWorld(env2)
		s2 := w2.NewSession()
		c11Setup(s2)
		reader := w.NewSession()
		for _, tbl := range []string{"t1", "t2"} {
			r := reader.Exec("SELECT * FROM " + tbl)
			for _, row := range r.Rows {
				vals := make([]string, len(row))
				for i, v := range row {
					vals[i] = FormatVal(v)
				}
				s2.MustExec(fmt.Sprintf("INSERT INTO %s VALUES (%s)", tbl, strings.Join(vals, ",")))
			}
		}
		out := map[int]string{}
		for qi, q := range pool {
			out[qi] = render(s2.Exec(q))
		}
		// the second world replaced the fault / order hooks; put ours back
		w2.Close()
		w.rehook()
		return out
	}
	steps := T.Range(6, 36)
	nextID := 100
	ctr, sqID := 0, 0
	for step := 0; step < steps && !env.Failed(); step++ {
		s := sess[T.Draw(nsess)]
		holder := anyTxn()
		canWrite := holder == nil || holder == s
		if holder == nil && T.Bool(1, 12) {
			// rows of one statement must not see a value cached for an earlier row
			n := T.Range(1, 4)
			var vals, want []string
			for i := 0; i < n; i++ {
				sqID++
				vals = append(vals, fmt.Sprintf("(%d)", sqID))
				want = append(want, fmt.Sprintf("(%d,%d)", sqID, ctr+i+1))
			}
			q := "INSERT INTO sq (id) VALUES " + strings.Join(vals, ", ")
			r := s.Exec(q)
			env.Kind(fmt.Sprintf("sequence-insert:%d", n))
			env.Logf("%s %s -> %s", s.Name, q, ErrClass(r.Err))
			if r.Err != nil {
				env.Fail("statement-succeeds", "sequence-insert-failed", "%s: %s failed: %v", s.Name, q, r.Err)
				break
			}
			got := render(s.Exec(fmt.Sprintf("SELECT id, seq FROM sq WHERE id > %d ORDER BY id", sqID-n)))
			sort.Strings(want) // render sorts the rows as strings
			if got != strings.Join(want, " ") {
				env.Fail("rows-see-current-data", "stale-subquery-inside-statement", "%s: %s with a trigger that increments ctr.v and reads it back through a subquery stored [%s]; each row must get the value current at that row: [%s]", s.Name, q, got, strings.Join(want, " "))
				break
			}
			ctr += n
			env.Probe("sequence-insert-checked")
			continue
		}
		switch a := T.Pick(10, 6, 2, 2, 1, 1, 1); {
		case a == 0 || !canWrite:
			qi := T.Draw(len(pool))
			how := T.Draw(2)
			got, mode := runQuery(s, qi, how)
			env.Kind("query:" + mode)
			env.Logf("%s %s q%d -> %s", s.Name, mode, qi, got)
			// (3) again, nothing in between
			again, _ := runQuery(s, qi, how)
			if again != got {
				env.Fail("repeatable", "same-query-twice-differs", "%s: %s gave [%s] and immediately afterwards [%s]", s.Name, pool[qi], got, again)
				break
			}
			if inTxn[s] {
				break // a session inside a transaction sees its own pending state: no cold reference
			}
			// (1) cold session at the same instant
			cold := w.NewSession()
			want := render(cold.Exec(pool[qi]))
			if got != want {
				env.Fail("warm-equals-cold", "stale-vs-fresh-session:"+mode, "%s (%s): warm session %s returns [%s], a freshly opened session returns [%s]", pool[qi], mode, s.Name, got, want)
				break
			}
			if holder == nil && T.Bool(1, 4) {
				// (2) fresh engine with the same contents
				fe := freshEngine()
				if fe[qi] != got {
					env.Fail("equals-fresh-engine", "stale-vs-fresh-engine:"+mode, "%s (%s): engine returns [%s], a newly built engine holding the same rows returns [%s]", pool[qi], mode, got, fe[qi])
				}
				env.Probe("fresh-engine-compared")
			}
		case a == 1: // DML
			var q string
			nextID++
			switch T.Draw(6) {
			case 0:
				q = fmt.Sprintf("INSERT INTO t1 VALUES (%d, %d, %d)", T.Draw(12), T.Draw(5), T.Draw(4))
			case 1:
				q = fmt.Sprintf("INSERT INTO t2 VALUES (%d, %d)", T.Draw(6), T.Draw(5))
			case 2:
				q = fmt.Sprintf("UPDATE t1 SET a = %d WHERE id = %d", T.Draw(5), T.Draw(12))
			case 3:
				q = fmt.Sprintf("UPDATE t2 SET x = %d WHERE id = %d", T.Draw(5), T.Draw(6))
			case 4:
				q = fmt.Sprintf("DELETE FROM t1 WHERE id = %d", T.Draw(12))
			default:
				q = fmt.Sprintf("DELETE FROM t2 WHERE id = %d", T.Draw(6))
			}
			if T.Bool(1, 8) {
				w.Arm(1, "")
			}
			r := s.Exec(q)
			if w.Fired() {
				env.Fault("edit-error")
			}
			w.ResetEditCount()
			env.Kind("dml:" + clsKind(ErrClass(r.Err)))
			env.Logf("%s %s -> %s", s.Name, q, ErrClass(r.Err))
		case a == 2: // DDL that changes the available plans
			if holder != nil {
				break
			}
			q := []string{"CREATE INDEX kx ON t2 (x)", "DROP INDEX kx ON t2", "DROP INDEX ka ON t1", "CREATE INDEX ka ON t1 (a)", "ANALYZE TABLE t1", "ANALYZE TABLE t2"}[T.Draw(6)]
			r := s.Exec(q)
			env.Kind("ddl")
			env.Logf("%s %s -> %s", s.Name, q, ErrClass(r.Err))
		case a == 3: // transaction boundaries (one open transaction at a time)
			if !inTxn[s] {
				s.MustExec("BEGIN")
				inTxn[s] = true
				env.Kind("begin")
				env.Logf("%s BEGIN", s.Name)
			} else if T.Bool(1, 2) {
				s.MustExec("COMMIT")
				inTxn[s] = false
				env.Kind("commit")
				env.Logf("%s COMMIT", s.Name)
			} else {
				s.MustExec("ROLLBACK")
				inTxn[s] = false
				env.Fault("rollback")
				env.Kind("rollback")
				env.Logf("%s ROLLBACK", s.Name)
			}
		case a == 4: // reconnect
			idx := 0
			for i := range sess {
				if sess[i] == s {
					idx = i
				}
			}
			env.Fault("session-drop")
			env.Kind("reconnect")
			env.Logf("%s reconnects", s.Name)
			s.End()
			delete(inTxn, s)
			delete(prepared, s)
			sess[idx] = w.NewSession()
		case a == 5: // a failing statement
			r := s.Exec("INSERT INTO t1 VALUES (1, 1, 1), (1, 2, 2)")
			env.Kind("failing-dml")
			env.Logf("%s failing insert -> %s", s.Name, ErrClass(r.Err))
		default:
			r := s.Exec("DEALLOCATE PREPARE p0")
			if r.Err == nil && prepared[s] != nil {
				delete(prepared[s], 0)
			}
			env.Kind("deallocate")
		}
	}
}

package sqlsim

import (
	"fmt"
	"strings"

	"verif/sim/kernel"
)

// C20: AUTO_INCREMENT. Histories of inserts with NULL / 0 / omitted / explicit
// ids, failed and rolled-back inserts, deletes of the maximum row, ALTER TABLE
// .. AUTO_INCREMENT, session drops, from 1-2 sessions (never overlapping
// writers). Oracle (property-based, gaps allowed): every generated value that
// is successfully stored is unique among all generated values ever stored and
// strictly greater than every value stored before the statement; inside one
// statement generated values increase in row order; OkResult.InsertID and
// LAST_INSERT_ID() equal the first generated value of the session's last
// successful generating insert and are untouched by failed inserts and by
// other sessions.

func checkC20(env *kernel.Env) {
	T := env.T
	w := NewWorld(env)
	defer w.Close()
	typ := []string{"INT", "BIGINT", "INT UNSIGNED", "TINYINT UNSIGNED"}[T.Pick(4, 2, 1, 1)]
	uniqueV := T.Bool(1, 2)
	setup := w.NewSession()
	ddl := fmt.Sprintf("CREATE TABLE t (id %s PRIMARY KEY AUTO_INCREMENT, v INT", typ)
	if uniqueV {
		ddl += ", UNIQUE KEY kv (v)"
	}
	ddl += ")"
	setup.MustExec(ddl)
	env.Logf("schema: %s", ddl)
	nsess := T.Range(1, 2)
	type sx struct {
		s       *Sess
		lastID  int64 // expected LAST_INSERT_ID()
		inTxn   bool
		txnVals []int64 // v values inserted in the open transaction
	}
	var sess []*sx
	for i := 0; i < nsess; i++ {
		sess = append(sess, &sx{s: w.NewSession()})
	}
	if nsess > 1 {
		env.Nontrivial()
	}
	nextV := int64(1000)
	maxStored := int64(0)         // greatest id ever stored by a successful (committed) statement
	generated := map[int64]bool{} // generated ids ever stored
	usedV := map[int64]bool{}     // v values present (for planting unique failures)
	steps := T.Range(4, 30)
	nIdx := 0
	holder := func() *sx {
		for _, x := range sess {
			if x.inTxn {
				return x
			}
		}
		return nil
	}
	readIDs := func(x *sx) map[int64]int64 { // v -> id
		r := x.s.Exec("SELECT id, v FROM t")
		out := map[int64]int64{}
		if r.Err != nil {
			env.Fail("read-succeeds", "read-error", "SELECT failed: %v", r.Err)
			return out
		}
		for _, row := range r.Rows {
			out[toVal(row[1]).(int64)] = toVal(row[0]).(int64)
		}
		return out
	}
	lastCls := "last-insert-id-wrong"
	checkLast := func(x *sx, who string) {
		r := x.s.Exec("SELECT LAST_INSERT_ID()")
		if r.Err != nil || len(r.Rows) != 1 {
			env.Fail("read-succeeds", "read-error", "SELECT LAST_INSERT_ID() failed: %v", r.Err)
			return
		}
		if got := toVal(r.Rows[0][0]).(int64); got != x.lastID {
			env.Fail("last-insert-id", lastCls, "%s: LAST_INSERT_ID() = %d, the first generated value of its last successful generating insert is %d", who, got, x.lastID)
		}
	}
	for step := 0; step < steps && !env.Failed(); step++ {
		x := sess[T.Draw(nsess)]
		who := x.s.Name
		if h := holder(); h != nil && h != x {
			// another session has an open transaction: only read
			checkLast(x, who)
			env.Kind("read")
			continue
		}
		switch a := T.Pick(8, 2, 2, 1, 1, 2, 1, 2, 1); a {
		case 0, 1: // insert (a=1: planted to fail on the unique key at a drawn row)
			n := T.Range(1, 4)
			type rowSpec struct {
				idLit string
				gen   bool
				v     int64
			}
			var rows []rowSpec
			explicitIDs := map[int64]bool{}
			omitID := T.Bool(1, 4)
			for i := 0; i < n; i++ {
				nextV++
				rs := rowSpec{v: nextV}
				switch T.Pick(5, 1, 2, 2) {
				case 0:
					rs.idLit, rs.gen = "NULL", true
				case 1:
					rs.idLit, rs.gen = "0", true
				case 3:
					rs.idLit, rs.gen = "DEFAULT", true // the keyword: generates like NULL
				default:
					id := maxStored + int64(T.Range(1, 6)) + int64(i*10)
					if T.Bool(1, 4) && maxStored > 3 {
						id = int64(T.Range(1, int(minI64(maxStored, 30)))) // may exist: duplicate
					}
					if omitID {
						rs.idLit, rs.gen = "NULL", true
					} else {
						rs.idLit = fmt.Sprint(id)
						explicitIDs[id] = true
					}
				}
				rows = append(rows, rs)
			}
			failRow := -1
			if a == 1 && uniqueV && len(usedV) > 0 {
				failRow = T.Draw(n)
				rows[failRow].v = minKey(usedV)
			}
			// INSERT IGNORE: conflicting rows are skipped, the others are stored
			ignore := T.Bool(1, 4)
			if ignore && failRow >= 0 && rows[failRow].gen && env.Avoid("ignore-skipped-generated-row-insert-id") {
				// known finding: when IGNORE skips the row that was to generate the
				// statement's first value, the insert id is taken from the next stored row
				rows[failRow].v = nextV + 1000 + int64(step)
				failRow = -1
			}
			if !rows[0].gen && env.Avoid("ok-insert-id-first-row") {
				// known finding: with an explicit id in the first row the OK packet reports
				// that id, not the first generated one; most runs keep generating rows first
				for i := range rows {
					if rows[i].gen {
						rows[0], rows[i] = rows[i], rows[0]
						if failRow == i {
							failRow = 0
						} else if failRow == 0 {
							failRow = i
						}
						break
					}
				}
			}
			var parts []string
			for _, r := range rows {
				if omitID {
					parts = append(parts, fmt.Sprintf("(%d)", r.v))
				} else {
					parts = append(parts, fmt.Sprintf("(%s,%d)", r.idLit, r.v))
				}
			}
			verb := "INSERT"
			if ignore {
				verb = "INSERT IGNORE"
			}
			q := verb + " INTO t (id, v) VALUES " + strings.Join(parts, ",")
			if omitID {
				q = verb + " INTO t (v) VALUES " + strings.Join(parts, ",")
			}
			inject := !ignore && T.Bool(1, 8)
			if inject {
				w.Arm(T.Range(1, n), "")
			}
			before := readIDs(x)
			res := x.s.Exec(q)
			fired := w.Fired()
			w.ResetEditCount()
			env.Kind(fmt.Sprintf("insert:%s", clsKind(ErrClass(res.Err))))
			env.Logf("%s: %s -> %s insert_id=%d", who, q, ErrClass(res.Err), res.InsertID)
			if fired {
				env.Fault("edit-error")
			}
			if res.Err != nil {
				if failRow >= 0 || fired {
					env.Fault("failed-insert")
				}
				checkLast(x, who) // unchanged by the failed insert
				continue
			}
			after := readIDs(x)
			prevMax := int64(0)
			for _, id := range before {
				if id > prevMax {
					prevMax = id
				}
			}
			if maxStored > prevMax {
				prevMax = maxStored
			}
			firstGen, lastGen := int64(0), int64(0)
			runMax := prevMax // greatest id stored before the current row, earlier rows of this statement included
			for i, r := range rows {
				if ignore && i == failRow {
					env.Probe("ignored-row-skipped")
					continue // its v duplicates an existing row's: skipped by IGNORE (after[v] is that older row)
				}
				id, ok := after[r.v]
				if !ok {
					if ignore && !r.gen {
						env.Probe("ignored-row-skipped")
						continue // a conflicting row skipped by IGNORE (explicit ids may collide)
					}
					env.Fail("insert-stored", "row-missing", "%s succeeded but row %d (v=%d) is not in the table", q, i, r.v)
					break
				}
				if r.gen && id <= runMax && id > prevMax {
					env.Fail("generated-greater", "generated-not-greater-than-earlier-row", "%s: generated id %d for row %d is not greater than %d, an id stored by an earlier row of the same statement", q, id, i, runMax)
					break
				}
				if id > runMax {
					runMax = id
				}
				if !r.gen {
					continue
				}
				if generated[id] {
					env.Fail("generated-unique", "generated-value-reused", "%s: generated id %d for row %d was generated and stored before", q, id, i)
					break
				}
				if id <= prevMax {
					env.Fail("generated-greater", "generated-not-greater", "%s: generated id %d for row %d is not greater than %d, the greatest id stored before the statement", q, id, i, prevMax)
					break
				}
				if lastGen != 0 && id <= lastGen {
					env.Fail("generated-increasing", "generated-not-increasing", "%s: generated id %d for row %d does not exceed the previous generated id %d of the same statement", q, id, i, lastGen)
					break
				}
				if firstGen == 0 {
					firstGen = id
				}
				lastGen = id
				generated[id] = true
				env.Probe("generated-value-checked")
			}
			if env.Failed() {
				break
			}
			for _, r := range rows {
				usedV[r.v] = true
				if x.inTxn {
					x.txnVals = append(x.txnVals, r.v)
				}
			}
			if !x.inTxn {
				for _, id := range after {
					if id > maxStored {
						maxStored = id
					}
				}
			}
			if firstGen != 0 {
				if int64(res.InsertID) != firstGen {
					cls := "insert-id-not-first-generated"
					firstStored := -1
					for i, r := range rows {
						if _, ok := after[r.v]; ok && !(ignore && i == failRow) {
							firstStored = i
							break
						}
					}
					if firstStored >= 0 && !rows[firstStored].gen && int64(res.InsertID) == after[rows[firstStored].v] {
						cls = "insert-id-is-first-rows-explicit-value"
					} else if ignore && failRow >= 0 && rows[failRow].gen {
						cls = "insert-id-after-skipped-generated-row"
					}
					env.Fail("insert-id", cls, "%s: OkResult.InsertID = %d, the first generated value is %d", q, res.InsertID, firstGen)
					break
				}
				x.lastID = firstGen
			}
			if ignore && failRow >= 0 && rows[failRow].gen {
				lastCls = "insert-id-after-skipped-generated-row"
			}
			checkLast(x, who)
			lastCls = "last-insert-id-wrong"
			for _, o := range sess {
				if o != x && holder() == nil {
					checkLast(o, o.s.Name) // untouched by another session's insert
				}
			}
		case 2: // delete the row with the greatest id (the counter must not go back)
			r := x.s.Exec("DELETE FROM t ORDER BY id DESC LIMIT 1")
			env.Kind("delete-max")
			env.Logf("%s: DELETE max -> %s affected=%d", who, ErrClass(r.Err), r.Affected)
			if r.Err == nil && r.Affected > 0 {
				env.Probe("max-row-deleted")
				usedV = map[int64]bool{}
				for v := range readIDs(x) {
					usedV[v] = true
				}
			}
		case 3: // delete everything
			x.s.Exec("DELETE FROM t WHERE id > 0")
			env.Kind("delete-all")
			env.Logf("%s: DELETE all", who)
			usedV = map[int64]bool{}
		case 4: // ALTER TABLE .. AUTO_INCREMENT = n
			if x.inTxn {
				continue
			}
			n := maxStored + int64(T.Range(-3, 20))
			if n < 1 {
				n = 1
			}
			r := x.s.Exec(fmt.Sprintf("ALTER TABLE t AUTO_INCREMENT = %d", n))
			env.Kind("alter-auto-increment")
			env.Logf("%s: ALTER TABLE t AUTO_INCREMENT = %d -> %s", who, n, ErrClass(r.Err))
			if r.Err == nil {
				// an explicit reset of the counter: values above the rows still present
				// may legitimately come again (MySQL accepts any n above the current
				// maximum); the baseline becomes max(current maximum, n-1)
				cur := int64(0)
				for _, id := range readIDs(x) {
					if id > cur {
						cur = id
					}
				}
				maxStored = cur
				if n-1 > maxStored {
					maxStored = n - 1
				}
				for id := range generated {
					if id > cur {
						delete(generated, id)
					}
				}
			}
		case 5: // transaction boundaries
			if !x.inTxn {
				x.s.MustExec("BEGIN")
				x.inTxn = true
				x.txnVals = nil
				env.Kind("begin")
				env.Logf("%s: BEGIN", who)
			} else if T.Bool(1, 2) {
				x.s.MustExec("COMMIT")
				x.inTxn = false
				for _, id := range readIDs(x) {
					if id > maxStored {
						maxStored = id
					}
				}
				env.Kind("commit")
				env.Logf("%s: COMMIT", who)
			} else {
				x.s.MustExec("ROLLBACK")
				x.inTxn = false
				env.Fault("rollback")
				env.Kind("rollback")
				env.Logf("%s: ROLLBACK", who)
				for _, v := range x.txnVals {
					delete(usedV, v)
				}
				// generated ids of the rolled-back rows were never durably stored: they may be reused
				for id := range generated {
					if id > maxStored {
						delete(generated, id)
					}
				}
			}
		case 6: // the client vanishes
			env.Fault("session-drop")
			env.Kind("drop-session")
			env.Logf("%s disconnects (open txn=%v)", who, x.inTxn)
			x.s.End()
			if x.inTxn {
				for _, v := range x.txnVals {
					delete(usedV, v)
				}
				for id := range generated {
					if id > maxStored {
						delete(generated, id)
					}
				}
			}
			x.s = w.NewSession()
			x.inTxn, x.lastID, x.txnVals = false, 0, nil
		case 7:
			checkLast(x, who)
			env.Kind("read")
		case 8: // a schema change that rewrites the table: the counter is table state and stays
			if holder() != nil {
				continue
			}
			nIdx++
			q := []string{
				fmt.Sprintf("ALTER TABLE t ADD INDEX ix%d (v)", nIdx),
				"ALTER TABLE t MODIFY v BIGINT",
				"ALTER TABLE t MODIFY v INT",
				fmt.Sprintf("CREATE INDEX jx%d ON t (v, id)", nIdx),
			}[T.Draw(4)]
			r := x.s.Exec(q)
			env.Kind("rewriting-alter")
			env.Logf("%s: %s -> %s", who, q, ErrClass(r.Err))
			if r.Err != nil {
				env.Fail("statement-succeeds", "rewriting-alter-failed", "%s: %s failed: %v", who, q, r.Err)
			}
			env.Probe("rewriting-alter")
		}
	}
}

func minI64(a, b int64) int64 {
	if a < b {
		return a
	}
	return b
}

func minKey(m map[int64]bool) int64 {
	first := true
	var out int64
	for k := range m {
		if first || k < out {
			out, first = k, false
		}
	}
	return out
}

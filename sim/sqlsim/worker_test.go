package sqlsim

import (
	"io"
	"testing"

	"github.com/sirupsen/logrus"

	"verif/sim/kernel"
)

// TestWorker is the entry point used by the driver (cmd/verif).
func TestWorker(t *testing.T) {
	logrus.SetOutput(io.Discard)
	kernel.NoSelfCheck["C36b"] = true
	kernel.WorkerMain(t, map[string]kernel.CheckFn{
		"C15": checkC15,
		"C17": checkC17,
		"C13": checkC13,
		"C14": checkC14,
		"C16": checkC16,
		"C19": checkC19,
		"C20": checkC20,
		"C11": checkC11,
		"C12": checkC12,
		"C44": checkC44,
		"C42": checkC42,
		"C39": checkC39,
		"C41": checkC41,
		"C18": checkC18,
		"C23": checkC23,
		"C21": checkC21,
		"C43": checkC43,
		"C51": checkC51,
		"C36a": checkC36a,
		"C36b": checkC36b,
	})
}

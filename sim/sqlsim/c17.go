package sqlsim

import (
	"fmt"
	"sort"
	"strings"

	"verif/sim/kernel"
)

// C17: transactions commit or roll back exactly their own changes.
//
// Regime S (serial): at most one session holds an open transaction (explicit
// or autocommit=0) at a time and while it does the others only read; writes
// with autocommit on alternate freely between sessions. Oracle: every read of
// every session equals committed-state (+ own pending) of a small model.
//
// Regime V (visibility): arbitrary overlap. Every written value is unique in
// the run, so each observed value is attributable to one write; a value whose
// only writer has not committed (or rolled back) must never be seen by
// another session, and a rolled-back value by nobody.

type c17Table struct {
	name  string
	keyed bool
}

// c17Row is one model row; the map key is id for keyed tables and the
// (unique) value for keyless ones.
type c17Row struct{ id, v int64 }

type c17State map[string]map[int64]c17Row

func (s c17State) clone() c17State {
	out := c17State{}
	for t, m := range s {
		mm := make(map[int64]c17Row, len(m))
		for k, v := range m {
			mm[k] = v
		}
		out[t] = mm
	}
	return out
}

func (s c17State) render(t string) string {
	rows := make([]c17Row, 0, len(s[t]))
	for _, r := range s[t] {
		rows = append(rows, r)
	}
	sort.Slice(rows, func(i, j int) bool {
		if rows[i].id != rows[j].id {
			return rows[i].id < rows[j].id
		}
		return rows[i].v < rows[j].v
	})
	var parts []string
	for _, r := range rows {
		parts = append(parts, fmt.Sprintf("(%d,%d)", r.id, r.v))
	}
	return strings.Join(parts, " ")
}

type c17Sess struct {
	s          *Sess
	idx        int
	autocommit bool
	explicit   bool // the open transaction was started by BEGIN / START TRANSACTION
	inTxn      bool // explicit transaction open, or autocommit=0 and a statement ran since the last commit
	readOnly   bool
	view       c17State       // committed + own pending (valid while inTxn)
	wrote      map[int64]bool // values written in the open transaction
}

// value bookkeeping for regime V
type c17Val struct {
	writer    int // session index
	committed bool
	dead      bool // rolled back or overwritten before commit
}

func checkC17(env *kernel.Env) {
	T := env.T
	w := NewWorld(env)
	defer w.Close()
	regimeV := T.Bool(1, 3)
	env.Flag("regime-V-overlap", regimeV)
	env.Flag("regime-S-serial", !regimeV)
	nsess := T.Range(2, 4)
	setup := w.NewSession()
	tables := []c17Table{{"a", true}}
	setup.MustExec("CREATE TABLE a (id INT PRIMARY KEY, v INT, KEY kv (v))")
	if T.Bool(1, 2) {
		tables = append(tables, c17Table{"b", T.Bool(1, 2)})
		if tables[1].keyed {
			setup.MustExec("CREATE TABLE b (id INT PRIMARY KEY, v INT)")
		} else {
			setup.MustExec("CREATE TABLE b (id INT, v INT)")
		}
	}
	committed := c17State{}
	for _, t := range tables {
		committed[t.name] = map[int64]c17Row{}
		setup.MustExec("CREATE VIEW v" + t.name + " AS SELECT id, v FROM " + t.name)
		setup.MustExec("CREATE PROCEDURE pr" + t.name + "() SELECT COUNT(*) FROM " + t.name)
		setup.MustExec("CREATE PROCEDURE pi" + t.name + "(pid INT, pv INT) INSERT INTO " + t.name + " VALUES (pid, pv)")
	}
	nextVal := int64(100)
	vals := map[int64]*c17Val{}
	var sess []*c17Sess
	for i := 0; i < nsess; i++ {
		sess = append(sess, &c17Sess{s: w.NewSession(), idx: i, autocommit: true})
	}
	env.Logf("cfg regimeV=%v sessions=%d tables=%d", regimeV, nsess, len(tables))
	if nsess >= 2 {
		env.Nontrivial()
	}
	tokenHolder := func() *c17Sess {
		for _, x := range sess {
			if x.inTxn || !x.autocommit {
				return x
			}
		}
		return nil
	}
	viewOf := func(x *c17Sess) c17State {
		if x.inTxn {
			return x.view
		}
		return committed
	}
	beginIfNeeded := func(x *c17Sess) {
		// autocommit=0: the first statement after a commit opens a transaction
		if !x.autocommit && !x.inTxn {
			x.inTxn = true
			x.view = committed.clone()
			x.wrote = map[int64]bool{}
		}
	}
	commit := func(x *c17Sess) {
		if x.inTxn {
			if !regimeV {
				committed = x.view
			}
			for v := range x.wrote {
				if !vals[v].dead {
					vals[v].committed = true
				}
			}
		}
		x.inTxn, x.readOnly, x.view, x.wrote, x.explicit = false, false, nil, nil, false
	}
	rollback := func(x *c17Sess) {
		for v := range x.wrote {
			vals[v].dead = true
		}
		x.inTxn, x.readOnly, x.view, x.wrote, x.explicit = false, false, nil, nil, false
	}
	checkRead := func(x *c17Sess, t c17Table) {
		// a read may go through a view or follow a CALL of a reading procedure:
		// neither may change what the transaction holds
		src := t.name
		if T.Bool(1, 3) {
			src = "v" + t.name
			env.Probe("read-through-view")
		}
		if T.Bool(1, 4) {
			c := x.s.Exec("CALL pr" + t.name + "()")
			env.Probe("call-before-read")
			env.Logf("  s%d CALL pr%s() -> %s", x.idx+1, t.name, ErrClass(c.Err))
			if c.Err != nil {
				env.Fail("read-succeeds", "call-error", "s%d: CALL pr%s() failed: %v", x.idx+1, t.name, c.Err)
				return
			}
		}
		r := x.s.Exec("SELECT id, v FROM " + src + " ORDER BY id, v")
		if r.Err != nil {
			env.Fail("read-succeeds", "read-error", "s%d: SELECT on %s failed: %v", x.idx+1, t.name, r.Err)
			return
		}
		var parts []string
		for _, row := range r.Rows {
			id, v := toVal(row[0]).(int64), toVal(row[1]).(int64)
			parts = append(parts, fmt.Sprintf("(%d,%d)", id, v))
			info := vals[v]
			if info == nil {
				env.Fail("values-attributable", "unknown-value", "s%d read value %d from %s that nobody wrote", x.idx+1, v, t.name)
				return
			}
			if info.writer != x.idx && !info.committed {
				cls := "uncommitted-visible"
				if info.dead {
					cls = "rolled-back-visible"
				}
				env.Fail("no-uncommitted-reads", cls, "s%d read (%d,%d) from %s: the value was written by s%d and never committed", x.idx+1, id, v, t.name, info.writer+1)
				return
			}
			if info.writer == x.idx && info.dead && !info.committed {
				env.Fail("rollback-discards", "rolled-back-visible-to-self", "s%d read (%d,%d) from %s although it rolled that write back", x.idx+1, id, v, t.name)
				return
			}
		}
		got := strings.Join(parts, " ")
		env.Logf("  s%d reads %s: %s", x.idx+1, t.name, got)
		if !regimeV {
			want := viewOf(x).render(t.name)
			if got != want {
				env.Fail("reads-equal-model", "read-differs-from-model", "s%d reads %s = [%s], model (committed state + own pending changes) = [%s]", x.idx+1, t.name, got, want)
			}
		} else if x.inTxn {
			// own pending changes are visible to their author
			for v := range x.wrote {
				if vals[v].dead {
					continue
				}
				if mv, ok := findVal(x.view, t.name, v); ok && !strings.Contains(got, fmt.Sprintf(",%d)", mv)) {
					env.Fail("own-writes-visible", "own-write-invisible", "s%d does not see its own uncommitted value %d in %s: [%s]", x.idx+1, v, t.name, got)
					return
				}
			}
		}
	}
	nsteps := T.Range(6, 40)
	for step := 0; step < nsteps && !env.Failed(); step++ {
		x := sess[T.Draw(nsess)]
		holder := tokenHolder()
		mayWrite := regimeV || holder == nil || holder == x
		mayOpen := regimeV || holder == nil || holder == x
		t := tables[T.Draw(len(tables))]
		type act struct {
			name string
			w    int
		}
		acts := []act{{"read", 6}, {"noise", 2}, {"rejected", 1}}
		if mayWrite && !x.readOnly {
			acts = append(acts, act{"insert", 5}, act{"update", 4}, act{"delete", 2}, act{"insert-dup", 1}, act{"update-fault", 1})
		}
		if mayOpen {
			if !x.inTxn && x.autocommit {
				acts = append(acts, act{"begin", 3}, act{"begin-ro", 1}, act{"autocommit0", 1})
			}
			if x.inTxn || !x.autocommit {
				acts = append(acts, act{"commit", 4}, act{"rollback", 3})
				if !x.readOnly {
					// BEGIN with work pending (open transaction, or autocommit=0):
					// the pending work is committed first, as in MySQL
					acts = append(acts, act{"begin-over-pending", 1})
				}
			}
			if !x.autocommit && !x.explicit {
				// (SET autocommit=1 inside an explicit transaction: MySQL commits it, this
				// engine lets it run on until COMMIT; the property does not speak about it)
				acts = append(acts, act{"autocommit1", 2})
			}
			// DDL inside an open transaction is not generated: MySQL commits
			// implicitly there, go-mysql-server keeps the transaction open, and C17
			// does not speak about it.
		}
		acts = append(acts, act{"drop-session", 1})
		ws := make([]int, len(acts))
		for i, a := range acts {
			ws[i] = a.w
		}
		a := acts[T.Pick(ws...)].name
		env.Kind(a)
		who := fmt.Sprintf("s%d", x.idx+1)
		switch a {
		case "rejected":
			// a statement refused before it executes (unknown column / table, syntax): it
			// changes nothing, and neither ends nor replaces the session's transaction or
			// what the session sees of the tables afterwards
			beginIfNeeded(x)
			qs := []string{
				"SELECT nosuchcolumn FROM " + t.name, "INSERT INTO " + t.name + " (nosuch) VALUES (1)", "UPDATE " + t.name + " SET nosuch = 1",
				"SELECT * FROM nosuchtable", "DELETE FROM " + t.name + " WHERE nosuch = 1", "SELEC 1", "SELECT id FROM " + t.name + " WHERE id = (SELECT nosuch FROM " + t.name + ")",
				"PREPARE pbad FROM 'SELECT nosuch FROM " + t.name + "'",
			}
			q := qs[T.Draw(len(qs))]
			r := x.s.Exec(q)
			env.Logf("%s %s -> %s", who, q, ErrClass(r.Err))
			env.Fault("rejected-statement")
			if r.Err == nil {
				env.Fail("statement-outcome", "invalid-statement-accepted", "%s: %s succeeded", who, q)
			}
		case "noise":
			// statements that neither read nor write table data: they must leave
			// the session's transaction exactly as it is (the reads that follow
			// show it if they do not)
			beginIfNeeded(x)
			qs := []string{
				"SHOW CREATE TABLE " + t.name, "SHOW CREATE VIEW v" + t.name, "SHOW TRIGGERS", "SHOW FULL TABLES", "SHOW TABLE STATUS",
				"SHOW INDEX FROM " + t.name, "DESCRIBE " + t.name, "EXPLAIN SELECT * FROM v" + t.name, "EXPLAIN SELECT * FROM " + t.name + " WHERE id = 1",
				"SELECT table_name FROM information_schema.tables WHERE table_schema = 'd'",
				"SELECT table_name FROM information_schema.views WHERE table_schema = 'd'",
				"SELECT column_name FROM information_schema.columns WHERE table_name = '" + t.name + "'",
				"SHOW CREATE PROCEDURE pr" + t.name, "SHOW PROCEDURE STATUS", "SHOW VARIABLES LIKE 'autocommit'", "SELECT @@autocommit, @@transaction_isolation",
				"SET @n = 1", "SELECT 1 INTO @m", "SHOW WARNINGS", "SHOW PROCESSLIST", "SHOW STATUS LIKE 'Threads%'", "SHOW DATABASES", "USE d",
				"PREPARE pn FROM 'SELECT COUNT(*) FROM v" + t.name + "'", "SELECT COUNT(*) FROM (SELECT id FROM v" + t.name + ") x", "SELECT DATABASE(), LAST_INSERT_ID(), ROW_COUNT()",
			}
			q := qs[T.Draw(len(qs))]
			r := x.s.Exec(q)
			env.Logf("%s %s -> %s", who, q, ErrClass(r.Err))
			if r.Err != nil {
				env.Fail("read-succeeds", "noise-statement-error", "%s: %s failed: %v", who, q, r.Err)
			}
		case "read":
			beginIfNeeded(x)
			checkRead(x, t)
			if x.autocommit && !x.inTxn {
				// nothing pending
			}
		case "insert", "insert-dup":
			beginIfNeeded(x)
			view := viewOf(x)
			var id int64
			if a == "insert-dup" && t.keyed && len(view[t.name]) > 0 {
				for k := range view[t.name] {
					if id == 0 || k < id {
						id = k
					}
				}
			} else {
				id = int64(T.Draw(10)) + 1
			}
			nextVal++
			v := nextVal
			vals[v] = &c17Val{writer: x.idx}
			q := fmt.Sprintf("INSERT INTO %s VALUES (%d, %d)", t.name, id, v)
			if T.Bool(1, 4) {
				// the insert is done by a stored procedure
				q = fmt.Sprintf("CALL pi%s(%d, %d)", t.name, id, v)
				env.Probe("insert-through-call")
			}
			r := x.s.Exec(q)
			env.Logf("%s %s -> %s", who, q, ErrClass(r.Err))
			_, exists := view[t.name][id]
			if !regimeV {
				if t.keyed && exists {
					if ErrClass(r.Err) != "duplicate-key" {
						env.Fail("statement-outcome", "dup-insert-accepted", "%s: %s succeeded although id %d exists in the session's view", who, q, id)
					}
					vals[v].dead = true
					break
				}
				if r.Err != nil {
					env.Fail("statement-outcome", "insert-rejected", "%s: %s failed: %v", who, q, r.Err)
					break
				}
			}
			if r.Err != nil {
				vals[v].dead = true
				break
			}
			key := id
			if !t.keyed {
				// keyless: ids may repeat; model key = value (unique)
				key = v
			}
			c17Apply(x, &committed, vals, t.name, key, c17Row{id, v}, false, regimeV)
		case "update", "update-fault":
			beginIfNeeded(x)
			view := viewOf(x)
			if !t.keyed || len(view[t.name]) == 0 {
				checkRead(x, t)
				break
			}
			ids := sortedIDs(view[t.name])
			id := ids[T.Draw(len(ids))]
			nextVal++
			v := nextVal
			vals[v] = &c17Val{writer: x.idx}
			q := fmt.Sprintf("UPDATE %s SET v = %d WHERE id = %d", t.name, v, id)
			if a == "update-fault" {
				w.Arm(1, "")
			}
			r := x.s.Exec(q)
			fired := w.Fired()
			w.ResetEditCount()
			env.Logf("%s %s -> %s (fault fired=%v)", who, q, ErrClass(r.Err), fired)
			if fired {
				env.Fault("edit-error-in-transaction")
			}
			if r.Err != nil {
				vals[v].dead = true
				if !fired && !regimeV {
					env.Fail("statement-outcome", "update-rejected", "%s: %s failed: %v", who, q, r.Err)
				}
				break
			}
			if r.Affected == 0 {
				vals[v].dead = true
				if !regimeV {
					env.Fail("statement-outcome", "update-missed-row", "%s: %s affected 0 rows although id %d is in the session's view", who, q, id)
				}
				break
			}
			c17Apply(x, &committed, vals, t.name, id, c17Row{id, v}, false, regimeV)
		case "delete":
			beginIfNeeded(x)
			view := viewOf(x)
			if !t.keyed || len(view[t.name]) == 0 {
				checkRead(x, t)
				break
			}
			ids := sortedIDs(view[t.name])
			id := ids[T.Draw(len(ids))]
			q := fmt.Sprintf("DELETE FROM %s WHERE id = %d", t.name, id)
			r := x.s.Exec(q)
			env.Logf("%s %s -> %s", who, q, ErrClass(r.Err))
			if r.Err != nil {
				if !regimeV {
					env.Fail("statement-outcome", "delete-rejected", "%s: %s failed: %v", who, q, r.Err)
				}
				break
			}
			c17Apply(x, &committed, vals, t.name, id, c17Row{}, true, regimeV)
		case "begin-over-pending":
			q := []string{"BEGIN", "START TRANSACTION"}[T.Draw(2)]
			r := x.s.Exec(q)
			env.Logf("%s %s (work pending: implicit commit) -> %s", who, q, ErrClass(r.Err))
			if r.Err != nil {
				env.Fail("statement-outcome", "begin-rejected", "%s: %s failed: %v", who, q, r.Err)
				break
			}
			env.Probe("begin-over-pending-work")
			commit(x)
			x.explicit = true
			x.inTxn, x.readOnly = true, false
			x.view = committed.clone()
			x.wrote = map[int64]bool{}
		case "begin", "begin-ro":
			q := "START TRANSACTION"
			if a == "begin-ro" {
				q = "START TRANSACTION READ ONLY"
			} else if T.Bool(1, 2) {
				q = "BEGIN"
			}
			r := x.s.Exec(q)
			env.Logf("%s %s -> %s", who, q, ErrClass(r.Err))
			if r.Err != nil {
				env.Fail("statement-outcome", "begin-rejected", "%s: %s failed: %v", who, q, r.Err)
				break
			}
			x.explicit = true
			x.inTxn, x.readOnly = true, a == "begin-ro"
			x.view = committed.clone()
			x.wrote = map[int64]bool{}
		case "commit":
			r := x.s.Exec("COMMIT")
			env.Logf("%s COMMIT -> %s", who, ErrClass(r.Err))
			if r.Err != nil {
				env.Fail("statement-outcome", "commit-rejected", "%s: COMMIT failed: %v", who, r.Err)
				break
			}
			commit(x)
		case "rollback":
			r := x.s.Exec("ROLLBACK")
			env.Logf("%s ROLLBACK -> %s", who, ErrClass(r.Err))
			if r.Err != nil {
				env.Fail("statement-outcome", "rollback-rejected", "%s: ROLLBACK failed: %v", who, r.Err)
				break
			}
			env.Fault("rollback")
			rollback(x)
		case "autocommit0":
			x.s.MustExec("SET autocommit = 0")
			env.Logf("%s SET autocommit=0", who)
			x.autocommit = false
		case "autocommit1":
			// switching autocommit on commits the open transaction
			x.s.MustExec("SET autocommit = 1")
			env.Logf("%s SET autocommit=1", who)
			commit(x)
			x.autocommit = true
		case "ddl-implicit-commit":
			q := fmt.Sprintf("CREATE TABLE side%d (i INT)", step)
			r := x.s.Exec(q)
			env.Logf("%s %s -> %s (implicit commit)", who, q, ErrClass(r.Err))
			if r.Err == nil {
				commit(x)
			}
		case "drop-session":
			// the client vanishes: open transaction is rolled back, locks released
			env.Fault("session-drop")
			env.Logf("%s disconnects (open txn=%v)", who, x.inTxn)
			x.s.End()
			rollback(x)
			x.autocommit = true
			x.s = w.NewSession()
		}
		// after every step: every session without open transaction reads the committed state
		if !env.Failed() && T.Bool(1, 3) {
			y := sess[T.Draw(nsess)]
			beginIfNeeded(y)
			checkRead(y, tables[T.Draw(len(tables))])
		}
	}
	// closing: everybody finishes; final state = committed model (regime S)
	if env.Failed() {
		return
	}
	for _, x := range sess {
		if x.inTxn || !x.autocommit {
			if T.Bool(1, 2) {
				x.s.Exec("COMMIT")
				commit(x)
			} else {
				x.s.Exec("ROLLBACK")
				rollback(x)
			}
			x.s.Exec("SET autocommit = 1")
			x.autocommit = true
		}
	}
	fresh := &c17Sess{s: w.NewSession(), idx: nsess, autocommit: true}
	vals0 := vals
	_ = vals0
	for _, t := range tables {
		checkRead(fresh, t)
	}
}

func sortedIDs(m map[int64]c17Row) []int64 {
	ids := make([]int64, 0, len(m))
	for k := range m {
		ids = append(ids, k)
	}
	sort.Slice(ids, func(i, j int) bool { return ids[i] < ids[j] })
	return ids
}

func findVal(s c17State, table string, v int64) (int64, bool) {
	for _, mv := range s[table] {
		if mv.v == v {
			return mv.v, true
		}
	}
	return 0, false
}

// c17Apply applies a successful write to the session's view (open
// transaction) or to the committed state (autocommit).
func c17Apply(x *c17Sess, committed *c17State, vals map[int64]*c17Val, table string, id int64, row c17Row, del, regimeV bool) {
	v := row.v
	target := *committed
	if x.inTxn {
		target = x.view
	}
	if old, ok := target[table][id]; ok && vals[old.v] != nil && !vals[old.v].committed {
		vals[old.v].dead = true
	}
	if del {
		delete(target[table], id)
	} else {
		target[table][id] = row
		if x.inTxn {
			x.wrote[v] = true
		} else {
			vals[v].committed = true
		}
	}
}

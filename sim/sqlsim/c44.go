package sqlsim

import (
	"fmt"
	"strings"

	"verif/sim/kernel"
)

// C44: system and user variables store and scope values correctly. 2-4
// sessions issue SET [SESSION|GLOBAL] over a curated set of variables of every
// system type (bool, bounded int, uint, double, enum, set), with valid,
// boundary and invalid values, wrong scopes and read-only variables; SET @u;
// reads of @@session.v / @@global.v / @u; sessions are opened (inherit the
// current globals) and dropped. Model: global store + per-session store
// initialised from the globals at session creation + per-session user
// variables. Only the scoping machinery over representatives is claimed, not
// "all system variables".

type c44Var struct {
	name    string
	kind    string // bool, int, double, enum
	lo, hi  int64
	enum    []string
	global  bool // has global scope
	session bool // has session scope
	dynamic bool
	partner string // charset <-> collation pairs: setting one sets the other in the same scope
}

var c44Vars = []c44Var{
	{name: "big_tables", kind: "bool", global: true, session: true, dynamic: true},
	{name: "sql_auto_is_null", kind: "bool", global: true, session: true, dynamic: true},
	{name: "unique_checks", kind: "bool", global: true, session: true, dynamic: true},
	{name: "default_week_format", kind: "int", lo: 0, hi: 7, global: true, session: true, dynamic: true},
	{name: "div_precision_increment", kind: "int", lo: 0, hi: 30, global: true, session: true, dynamic: true},
	{name: "lock_wait_timeout", kind: "int", lo: 1, hi: 31536000, global: true, session: true, dynamic: true},
	{name: "wait_timeout", kind: "int", lo: 1, hi: 31536000, global: true, session: true, dynamic: true},
	{name: "max_connections", kind: "int", lo: 1, hi: 100000, global: true, session: false, dynamic: true},
	{name: "local_infile", kind: "bool", global: true, session: false, dynamic: true},
	{name: "long_query_time", kind: "double", lo: 0, hi: 1 << 40, global: true, session: true, dynamic: true},
	{name: "transaction_isolation", kind: "enum", enum: []string{"READ-UNCOMMITTED", "READ-COMMITTED", "REPEATABLE-READ", "SERIALIZABLE"}, global: true, session: true, dynamic: true},
	{name: "character_set_server", kind: "charset", global: true, session: true, dynamic: true, partner: "collation_server"},
	{name: "collation_server", kind: "collation", global: true, session: true, dynamic: true, partner: "character_set_server"},
	{name: "character_set_connection", kind: "charset", global: true, session: true, dynamic: true, partner: "collation_connection"},
	{name: "collation_connection", kind: "collation", global: true, session: true, dynamic: true, partner: "character_set_connection"},
	{name: "lower_case_table_names", kind: "int", lo: 0, hi: 2, global: true, session: false, dynamic: false},
	{name: "version_comment", kind: "enum", enum: []string{"x"}, global: true, session: false, dynamic: false},
}

type c44Value struct {
	lit    string // SQL literal to assign
	canon  string // canonical rendering of the stored value ("" when invalid)
	valid  bool
	strict bool // invalid for sure (wrong kind), as opposed to out of range
}

func c44GenValue(T *kernel.Tape, v *c44Var) c44Value {
	switch v.kind {
	case "bool":
		switch T.Draw(8) {
		case 0:
			return c44Value{"0", "0", true, false}
		case 1:
			return c44Value{"1", "1", true, false}
		case 2:
			return c44Value{"ON", "1", true, false}
		case 3:
			return c44Value{"OFF", "0", true, false}
		case 4:
			return c44Value{"'on'", "1", true, false}
		case 5:
			return c44Value{"TRUE", "1", true, false}
		case 6:
			return c44Value{"5", "", false, true}
		default:
			return c44Value{"'maybe'", "", false, true}
		}
	case "int":
		switch T.Draw(8) {
		case 0:
			return c44Value{fmt.Sprint(v.lo), fmt.Sprint(v.lo), true, false}
		case 1:
			return c44Value{fmt.Sprint(v.hi), fmt.Sprint(v.hi), true, false}
		case 2:
			return c44Value{fmt.Sprint(v.lo - 1), "", false, false}
		case 3:
			return c44Value{fmt.Sprint(v.hi + 1), "", false, false}
		case 4:
			return c44Value{"'abc'", "", false, true}
		default:
			x := v.lo + int64(T.Draw(int(minI64(v.hi-v.lo, 20))+1))
			return c44Value{fmt.Sprint(x), fmt.Sprint(x), true, false}
		}
	case "double":
		switch T.Draw(5) {
		case 0:
			return c44Value{"0", "0", true, false}
		case 1:
			return c44Value{"2.5", "2.5", true, false}
		case 2:
			return c44Value{"-1", "", false, false}
		case 3:
			return c44Value{"'fast'", "", false, true}
		default:
			x := T.Draw(50)
			return c44Value{fmt.Sprint(x), fmt.Sprint(x), true, false}
		}
	case "charset":
		if T.Bool(1, 6) {
			return c44Value{"'nocharset'", "", false, true}
		}
		e := []string{"utf8mb4", "latin1", "utf8mb3", "ascii"}[T.Draw(4)]
		return c44Value{"'" + e + "'", e, true, false}
	case "collation":
		if T.Bool(1, 6) {
			return c44Value{"'no_such_collation'", "", false, true}
		}
		e := []string{"utf8mb4_0900_ai_ci", "utf8mb4_bin", "latin1_swedish_ci", "latin1_bin", "utf8mb3_general_ci", "ascii_bin"}[T.Draw(6)]
		return c44Value{"'" + e + "'", e, true, false}
	case "enum":
		if T.Bool(1, 4) {
			return c44Value{"'NOPE'", "", false, true}
		}
		e := v.enum[T.Draw(len(v.enum))]
		return c44Value{"'" + e + "'", e, true, false}
	}
	return c44Value{"0", "0", true, false}
}

func c44Canon(v any) string {
	switch x := v.(type) {
	case nil:
		return "NULL"
	case bool:
		if x {
			return "1"
		}
		return "0"
	case float64:
		s := fmt.Sprintf("%g", x)
		return s
	case float32:
		return fmt.Sprintf("%g", x)
	case string:
		return x
	case []byte:
		return string(x)
	default:
		return fmt.Sprint(x)
	}
}

func checkC44(env *kernel.Env) {
	T := env.T
	w := NewWorld(env)
	defer w.Close()
	type sx struct {
		s    *Sess
		sys  map[string]string
		user map[string]string
	}
	boot := w.NewSession()
	global := map[string]string{}
	readVar := func(s *Sess, scope, name string) (string, error) {
		r := s.Exec(fmt.Sprintf("SELECT @@%s.%s", scope, name))
		if r.Err != nil {
			return "", r.Err
		}
		return c44Canon(r.Rows[0][0]), nil
	}
	for _, v := range c44Vars {
		val, err := readVar(boot, "global", v.name)
		if err != nil {
			kernel.Harnessf("cannot read @@global.%s: %v", v.name, err)
		}
		global[v.name] = val
	}
	newSess := func() *sx {
		x := &sx{s: w.NewSession(), sys: map[string]string{}, user: map[string]string{}}
		for _, v := range c44Vars {
			if v.session {
				x.sys[v.name] = global[v.name]
			}
		}
		return x
	}
	nsess := T.Range(2, 4)
	var sess []*sx
	for i := 0; i < nsess; i++ {
		sess = append(sess, newSess())
	}
	env.Nontrivial()
	userNames := []string{"u1", "u2", "u3"}
	// full cross-check of every scope of every session against the model
	// only is the variable touched by the last step ("" = check everything)
	only, only2 := "", ""
	verifyAll := func(what string) {
		for _, v := range c44Vars {
			if only != "" && v.name != only && v.name != only2 {
				continue
			}
			got, err := readVar(sess[0].s, "global", v.name)
			if err != nil || got != global[v.name] {
				env.Fail("global-scope", "global-value-wrong", "after %s: @@global.%s = %q (err %v), model %q", what, v.name, got, err, global[v.name])
				return
			}
		}
		for _, x := range sess {
			for _, v := range c44Vars {
				if !v.session || (only != "" && v.name != only && v.name != only2) {
					continue
				}
				got, err := readVar(x.s, "session", v.name)
				if err != nil || got != x.sys[v.name] {
					env.Fail("session-scope", "session-value-wrong", "after %s: %s sees @@session.%s = %q (err %v), model %q", what, x.s.Name, v.name, got, err, x.sys[v.name])
					return
				}
			}
			for _, u := range userNames {
				if only != "" && "@"+u != only {
					continue
				}
				r := x.s.Exec("SELECT @" + u)
				want, ok := x.user[u]
				if !ok {
					want = "NULL"
				}
				if r.Err != nil || c44Canon(r.Rows[0][0]) != want {
					got := "?"
					if r.Err == nil {
						got = c44Canon(r.Rows[0][0])
					}
					env.Fail("user-variable-scope", "user-variable-wrong", "after %s: %s sees @%s = %q (err %v), model %q", what, x.s.Name, u, got, r.Err, want)
					return
				}
				if want != "NULL" {
					// the variable carries the type of the value assigned last, not of an earlier
					// one: as a string it concatenates and compares as that text, as a number it
					// compares as that number
					r2 := x.s.Exec(fmt.Sprintf("SELECT CONCAT(@%s, '|'), @%s = 'zz-other', @%s = '%s'", u, u, u, strings.ReplaceAll(want, "'", "''")))
					wantOther := "0"
					if want == "0" {
						wantOther = "1" // a number equals a text that converts to it
					}
					if r2.Err != nil || c44Canon(r2.Rows[0][0]) != want+"|" || c44Canon(r2.Rows[0][1]) != wantOther || c44Canon(r2.Rows[0][2]) != "1" {
						got := "?"
						if r2.Err == nil {
							got = c44Canon(r2.Rows[0][0]) + " / " + c44Canon(r2.Rows[0][1]) + " / " + c44Canon(r2.Rows[0][2])
						}
						env.Fail("user-variable-scope", "user-variable-typed-wrong", "after %s: %s has @%s = %q but CONCAT(@%s,'|') / @%s = 'zz-other' / @%s = its own text give %s (err %v); want %s| / %s / 1", what, x.s.Name, u, want, u, u, u, got, r2.Err, want, wantOther)
						return
					}
				}
			}
		}
	}
	steps := T.Range(5, 40)
	for step := 0; step < steps && !env.Failed(); step++ {
		x := sess[T.Draw(len(sess))]
		only, only2 = "", ""
		switch T.Pick(10, 4, 1, 1) {
		case 0:
			v := &c44Vars[T.Draw(len(c44Vars))]
			only, only2 = v.name, v.partner
			val := c44GenValue(T, v)
			scope := []string{"SESSION", "GLOBAL", ""}[T.Draw(3)] // "" = session by default
			// system variable names are case-insensitive: spell the name in some case,
			// and sometimes use the @@scope.name form
			spelled := v.name
			switch T.Draw(4) {
			case 1:
				spelled = strings.ToUpper(v.name)
			case 2:
				spelled = strings.ToUpper(v.name[:1]) + v.name[1:]
			}
			q := fmt.Sprintf("SET %s %s = %s", scope, spelled, val.lit)
			if scope == "" {
				q = fmt.Sprintf("SET %s = %s", spelled, val.lit)
			} else if T.Bool(1, 4) {
				q = fmt.Sprintf("SET @@%s.%s = %s", scope, spelled, val.lit)
			}
			r := x.s.Exec(q)
			env.Kind(fmt.Sprintf("set:%s:%v", strings.ToLower(scope), r.Err == nil))
			env.Logf("%s: %s -> %s", x.s.Name, q, ErrClass(r.Err))
			isGlobal := scope == "GLOBAL"
			scopeOK := (isGlobal && v.global) || (!isGlobal && v.session)
			mustFail := !v.dynamic || !scopeOK || (!val.valid && val.strict)
			switch {
			case r.Err == nil && mustFail:
				why := "the value is not of the variable's type"
				if !v.dynamic {
					why = "the variable is read-only"
				} else if !scopeOK {
					why = "the variable does not have that scope"
				}
				env.Fail("invalid-set-rejected", "invalid-set-accepted", "%s succeeded although %s", q, why)
			case r.Err != nil && val.valid && v.dynamic && scopeOK:
				env.Fail("valid-set-accepted", "valid-set-rejected", "%s failed: %v", q, r.Err)
			case r.Err == nil && val.valid:
				store := x.sys
				scopeName := "session"
				if isGlobal {
					store, scopeName = global, "global"
				}
				store[v.name] = val.canon
				if v.partner != "" {
					// the partner follows in the same scope (and nowhere else): a charset
					// brings one of its own collations (which one is the engine's default
					// for it: learned, then held), a collation brings its charset
					got, _ := readVar(x.s, scopeName, v.partner)
					env.Probe("linked-variable-set")
					if v.kind == "collation" {
						store[v.partner] = strings.SplitN(val.canon, "_", 2)[0]
					} else if strings.HasPrefix(got, val.canon+"_") {
						store[v.partner] = got
					} else {
						env.Fail("linked-variables", "partner-not-updated", "%s succeeded, but @@%s.%s reads %q, which is not a collation of %s", q, scopeName, v.partner, got, val.canon)
					}
				}
			case r.Err == nil && !val.valid:
				// out of range and accepted: the engine adjusted it; learn the value, it must lie inside the bounds
				scopeName := "session"
				if isGlobal {
					scopeName = "global"
				}
				got, _ := readVar(x.s, scopeName, v.name)
				env.Probe("out-of-range-adjusted")
				if isGlobal {
					global[v.name] = got
				} else {
					x.sys[v.name] = got
				}
				var n float64
				fmt.Sscan(got, &n)
				if n < float64(v.lo) || n > float64(v.hi) {
					env.Fail("invalid-set-rejected", "out-of-range-stored", "%s was accepted and @@%s.%s now reads %s, outside [%d,%d]", q, scopeName, v.name, got, v.lo, v.hi)
				}
			default:
				env.Fault("rejected-set")
			}
		case 1:
			u := userNames[T.Draw(len(userNames))]
			only = "@" + u
			var lit, canon string
			switch T.Draw(6) {
			case 0:
				lit, canon = "NULL", "NULL"
			case 1:
				n := T.Draw(100) - 50
				lit, canon = fmt.Sprint(n), fmt.Sprint(n)
			case 2:
				lit, canon = "'text'", "text"
			case 3:
				lit, canon = "3 + 4", "7"
			case 4:
				lit, canon = "'it''s'", "it's"
			default:
				lit, canon = "''", ""
			}
			q := fmt.Sprintf("SET @%s = %s", u, lit)
			r := x.s.Exec(q)
			env.Kind("set-user")
			env.Logf("%s: %s -> %s", x.s.Name, q, ErrClass(r.Err))
			if r.Err != nil {
				env.Fail("valid-set-accepted", "user-set-rejected", "%s failed: %v", q, r.Err)
			} else {
				x.user[u] = canon
			}
		case 2:
			env.Kind("new-session")
			env.Logf("a new session connects")
			if len(sess) < 5 {
				sess = append(sess, newSess())
			}
		case 3:
			if len(sess) > 1 {
				i := T.Draw(len(sess))
				env.Kind("drop-session")
				env.Fault("session-drop")
				env.Logf("%s disconnects", sess[i].s.Name)
				sess[i].s.End()
				sess = append(sess[:i], sess[i+1:]...)
			}
		}
		if !env.Failed() {
			// after session events, and every few steps, everything is cross-checked
			if T.Bool(1, 6) {
				only = ""
			}
			verifyAll(fmt.Sprintf("step %d", step))
		}
	}
	if !env.Failed() {
		only = ""
		verifyAll("the last step")
	}
}

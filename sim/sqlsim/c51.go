package sqlsim

import (
	"fmt"
	"sort"
	"strings"

	"verif/sim/kernel"
)

// C51: full-text search. A table with a FULLTEXT index (over one or two
// columns, case-insensitive or binary collation) goes through a DML history of
// two sessions (INSERT, UPDATE of indexed and non-indexed columns, appending
// UPDATE, DELETE, REPLACE, transactions that roll back or commit), index DDL
// (DROP INDEX / ADD FULLTEXT over the rows present, ADD / DROP COLUMN, which
// rewrite the table) and injected storage errors (the full-text editor writes
// to several internal tables per row). After every step, for several search
// strings, MATCH .. AGAINST must return exactly the rows that contain at least
// one search word (words: runs of letters, digits and underscores of 3+
// characters, compared under the column collation), and a failed statement
// leaves table and index as they were.

var ftVocab = []string{"apple", "banana", "cherry", "delta", "eagle", "forest", "garden", "harbor", "island", "jungle", "snake", "snake_case", "case"}
var ftNoise = []string{"of", "to", "a1", "x"}
var ftSeps = []string{" ", " ", ", ", ". ", "-", "; ", "  ", "! "}

// ftTokens splits text into words the way the property describes.
func ftTokens(text string) []string {
	var out []string
	var cur []rune
	flush := func() {
		if len(cur) >= 3 {
			out = append(out, string(cur))
		}
		cur = cur[:0]
	}
	for _, r := range text {
		if (r >= 'a' && r <= 'z') || (r >= 'A' && r <= 'Z') || (r >= '0' && r <= '9') || r == '_' {
			cur = append(cur, r)
		} else {
			flush()
		}
	}
	flush()
	return out
}

type ftDoc struct {
	id    int64
	title *string
	body  *string
}

type ftModel struct {
	docs     map[int64]*ftDoc
	cols     []string // indexed columns: body or title, body
	ci       bool
	hasIndex bool
	extra    bool // the table has the extra column x
}

func (m *ftModel) clone() map[int64]*ftDoc {
	c := map[int64]*ftDoc{}
	for id, d := range m.docs {
		x := *d
		c[id] = &x
	}
	return c
}

func (m *ftModel) ids() []int64 {
	var out []int64
	for id := range m.docs {
		out = append(out, id)
	}
	sort.Slice(out, func(i, j int) bool { return out[i] < out[j] })
	return out
}

func (m *ftModel) norm(w string) string {
	if m.ci {
		return strings.ToLower(w)
	}
	return w
}

// search returns the ids of the documents containing at least one word of q.
func (m *ftModel) search(q string) []int64 {
	want := map[string]bool{}
	for _, w := range ftTokens(q) {
		want[m.norm(w)] = true
	}
	var out []int64
	for _, id := range m.ids() {
		d := m.docs[id]
		var text []string
		for _, c := range m.cols {
			if c == "title" && d.title != nil {
				text = append(text, *d.title)
			}
			if c == "body" && d.body != nil {
				text = append(text, *d.body)
			}
		}
		for _, w := range ftTokens(strings.Join(text, " ")) {
			if want[m.norm(w)] {
				out = append(out, id)
				break
			}
		}
	}
	return out
}

func (m *ftModel) render() string {
	var parts []string
	for _, id := range m.ids() {
		d := m.docs[id]
		parts = append(parts, fmt.Sprintf("(%d,%s,%s)", id, ftLit(d.title), ftLit(d.body)))
	}
	return strings.Join(parts, " ")
}

func ftLit(s *string) string {
	if s == nil {
		return "NULL"
	}
	return "'" + *s + "'"
}

func checkC51(env *kernel.Env) {
	T := env.T
	w := NewWorld(env)
	defer w.Close()
	sessions := []*Sess{w.NewSession(), w.NewSession()}
	s1 := sessions[0]
	m := &ftModel{docs: map[int64]*ftDoc{}, cols: []string{"body"}, hasIndex: true}
	if T.Bool(1, 3) {
		m.cols = []string{"title", "body"}
	}
	m.ci = T.Bool(2, 3)
	coll := "utf8mb4_0900_bin"
	if m.ci {
		coll = "utf8mb4_0900_ai_ci"
	}
	env.Kind(fmt.Sprintf("cfg:%d:%v", len(m.cols), m.ci))
	ddl := fmt.Sprintf("CREATE TABLE docs (id INT PRIMARY KEY, title VARCHAR(80) COLLATE %s, body TEXT COLLATE %s, FULLTEXT KEY ft (%s))", coll, coll, strings.Join(m.cols, ", "))
	env.Logf("%s", ddl)
	s1.MustExec(ddl)
	genText := func(maxWords int) *string {
		if T.Bool(1, 10) {
			return nil
		}
		n := T.Draw(maxWords + 1)
		var b strings.Builder
		for i := 0; i < n; i++ {
			if i > 0 {
				b.WriteString(ftSeps[T.Draw(len(ftSeps))])
			}
			var wd string
			if T.Bool(1, 6) {
				wd = ftNoise[T.Draw(len(ftNoise))]
			} else {
				wd = ftVocab[T.Draw(len(ftVocab))]
				switch T.Draw(6) {
				case 0:
					wd = strings.ToUpper(wd)
				case 1:
					wd = strings.ToUpper(wd[:1]) + wd[1:]
				}
			}
			b.WriteString(wd)
		}
		s := b.String()
		return &s
	}
	match := "MATCH(" + strings.Join(m.cols, ", ") + ")"
	readTable := func(s *Sess) string {
		r := s.Exec("SELECT id, title, body FROM docs ORDER BY id")
		if r.Err != nil {
			return "ERROR " + ErrClass(r.Err)
		}
		return strings.Join(FormatRows(r.Rows, true), " ")
	}
	genQuery := func() string {
		n := T.Range(1, 3)
		var ws []string
		for i := 0; i < n; i++ {
			wd := ftVocab[T.Draw(len(ftVocab))]
			switch T.Draw(8) {
			case 0:
				wd = strings.ToUpper(wd)
			case 1:
				wd = "absentword"
			case 2:
				wd = ftNoise[T.Draw(len(ftNoise))]
			}
			ws = append(ws, wd)
		}
		return strings.Join(ws, []string{" ", ", ", "-"}[T.Draw(3)])
	}
	searches := func(step int, after string) bool {
		if !m.hasIndex {
			return true
		}
		for _, s := range sessions {
			if t := s.S.GetTransaction(); t != nil && s != sessions[0] && false {
				continue
			}
			for k := 0; k < 3; k++ {
				q := genQuery()
				mode := []string{"", " IN NATURAL LANGUAGE MODE"}[T.Draw(2)]
				sqlText := fmt.Sprintf("SELECT id FROM docs WHERE %s AGAINST ('%s'%s) ORDER BY id", match, q, mode)
				r := s.Exec(sqlText)
				want := fmt.Sprint(m.search(q))
				env.Logf("  %s: %s", s.Name, sqlText)
				got := "ERROR " + ErrClass(r.Err)
				if r.Err == nil {
					ids := []int64{}
					for _, row := range r.Rows {
						var x int64
						fmt.Sscan(FormatVal(row[0]), &x)
						ids = append(ids, x)
					}
					got = fmt.Sprint(ids)
				}
				if want == "[]" {
					want = "[]"
				}
				if got != want {
					cls := "search-differs"
					switch {
					case r.Err != nil:
						cls = "search-error"
					case len(r.Rows) > len(m.search(q)):
						cls = "search-returns-extra-rows"
					case len(r.Rows) < len(m.search(q)):
						cls = "search-misses-rows"
					}
					env.Fail("match-exactly-containing-rows", cls, "step %d after %q: %s runs %s\n  got:  %s\n  want: %s\n  table: %s", step, after, s.Name, sqlText, got, want, m.render())
					return false
				}
				if len(m.search(q)) > 0 {
					env.Probe("non-empty-search-checked")
				}
				// the relevance in the select list is positive exactly for the matching rows
				if k == 0 {
					r2 := s.Exec(fmt.Sprintf("SELECT id FROM docs WHERE %s AGAINST ('%s') > 0 ORDER BY id", match, q))
					if r2.Err == nil {
						ids := []int64{}
						for _, row := range r2.Rows {
							var x int64
							fmt.Sscan(FormatVal(row[0]), &x)
							ids = append(ids, x)
						}
						if fmt.Sprint(ids) != want {
							env.Fail("match-exactly-containing-rows", "relevance-sign-differs", "step %d after %q: rows with %s AGAINST ('%s') > 0 are %v, the rows containing a search word are %s", step, after, match, q, ids, want)
							return false
						}
					}
				}
			}
		}
		return true
	}
	nextID := int64(0)
	steps := T.Range(4, 20)
	if env.Tier == "thorough" {
		steps = T.Range(4, 36)
	}
	faults := T.Bool(1, 2)
	var txn *Sess
	var txnSaved map[int64]*ftDoc
	for step := 0; step < steps && !env.Failed(); step++ {
		s := sessions[T.Draw(2)]
		if txn != nil {
			s = txn // while a transaction is open only its session works (no isolation between overlapping writers)
		}
		saved := m.clone()
		var q, kind string
		ddlOp := false
		ids := m.ids()
		pickID := func() int64 {
			if len(ids) > 0 && T.Bool(9, 10) {
				return ids[T.Draw(len(ids))]
			}
			return 999
		}
		cols := "id, title, body"
		tail := ""
		if m.extra {
			cols, tail = "id, title, body, x", ", 0"
		}
		switch T.Pick(6, 3, 2, 2, 2, 1, 1, 1, 1, 1) {
		case 0: // INSERT 1-3 documents
			kind = "insert"
			n := T.Pick(4, 2, 1) + 1
			var tuples []string
			for i := 0; i < n; i++ {
				nextID++
				d := &ftDoc{id: nextID, title: genText(2), body: genText(6)}
				m.docs[d.id] = d
				tuples = append(tuples, fmt.Sprintf("(%d, %s, %s%s)", d.id, ftLit(d.title), ftLit(d.body), tail))
			}
			q = fmt.Sprintf("INSERT INTO docs (%s) VALUES %s", cols, strings.Join(tuples, ", "))
		case 1: // UPDATE the body of one document
			kind = "update-body"
			id := pickID()
			nb := genText(6)
			if d, ok := m.docs[id]; ok {
				if caseOnly(d.body, nb) {
					nb = nil // (a case-only change under _ai_ci is a recorded C13 finding; not generated)
				}
				d.body = nb
			}
			q = fmt.Sprintf("UPDATE docs SET body = %s WHERE id = %d", ftLit(nb), id)
		case 2: // UPDATE the title (indexed or not, depending on the configuration)
			kind = "update-title"
			id := pickID()
			nt := genText(2)
			if d, ok := m.docs[id]; ok {
				if caseOnly(d.title, nt) {
					nt = nil
				}
				d.title = nt
			}
			q = fmt.Sprintf("UPDATE docs SET title = %s WHERE id = %d", ftLit(nt), id)
		case 3: // append a word to several documents
			kind = "update-append"
			wd := ftVocab[T.Draw(len(ftVocab))]
			lim := int64(T.Range(1, 8))
			for _, id := range ids {
				if d := m.docs[id]; id <= lim && d.body != nil {
					nb := *d.body + " " + wd
					d.body = &nb
				}
			}
			q = fmt.Sprintf("UPDATE docs SET body = CONCAT(body, ' %s') WHERE id <= %d", wd, lim)
		case 4: // DELETE
			kind = "delete"
			if T.Bool(1, 4) {
				lim := int64(T.Range(1, 6))
				for _, id := range ids {
					if id <= lim {
						delete(m.docs, id)
					}
				}
				q = fmt.Sprintf("DELETE FROM docs WHERE id <= %d", lim)
			} else {
				id := pickID()
				delete(m.docs, id)
				q = fmt.Sprintf("DELETE FROM docs WHERE id = %d", id)
			}
		case 5: // REPLACE an existing or new document
			kind = "replace"
			id := pickID()
			if id == 999 {
				nextID++
				id = nextID
			}
			d := &ftDoc{id: id, title: genText(2), body: genText(6)}
			m.docs[id] = d
			q = fmt.Sprintf("REPLACE INTO docs (%s) VALUES (%d, %s, %s%s)", cols, id, ftLit(d.title), ftLit(d.body), tail)
		case 6: // transaction control
			switch {
			case txn == nil:
				kind, q = "begin", "BEGIN"
			case T.Bool(1, 2):
				kind, q = "rollback", "ROLLBACK"
			default:
				kind, q = "commit", "COMMIT"
			}
		case 7: // DROP / ADD the FULLTEXT index (built over the rows present)
			if txn != nil {
				continue
			}
			ddlOp = true
			if m.hasIndex {
				kind, q = "drop-index", "ALTER TABLE docs DROP INDEX ft"
			} else {
				kind, q = "add-fulltext", fmt.Sprintf("ALTER TABLE docs ADD FULLTEXT INDEX ft (%s)", strings.Join(m.cols, ", "))
			}
		case 8: // ADD / DROP a column: the table and its full-text tables are rewritten
			if txn != nil {
				continue
			}
			ddlOp = true
			if m.extra {
				kind, q = "drop-column", "ALTER TABLE docs DROP COLUMN x"
			} else {
				kind, q = "add-column", "ALTER TABLE docs ADD COLUMN x INT DEFAULT 0"
				if T.Bool(1, 2) {
					q += " FIRST" // the key column's position in the row moves
				}
			}
		default: // a no-op update (nothing to index)
			kind = "update-noop"
			q = "UPDATE docs SET body = body WHERE id > 0"
		}
		armed := 0
		rewrites := (m.hasIndex && (kind == "add-column" || kind == "drop-column")) || kind == "add-fulltext"
		if faults && kind != "begin" && kind != "commit" && kind != "rollback" && T.Bool(1, 4) &&
			!(rewrites && env.Avoid("failed-rewrite-empties-fulltext-tables")) {
			armed = T.Range(1, 8)
			w.Arm(armed, "")
		}
		beforeTable := readTable(s)
		r, pan := s.ExecRecover(q)
		fired := w.Fired()
		w.ResetEditCount()
		if pan != "" {
			env.Fail("no-panic", "panic:"+pan, "%q panicked in %s", q, pan)
			break
		}
		env.Logf("%s: %s -> %s affected=%d [fault fired: %v]", s.Name, q, ErrClass(r.Err), r.Affected, fired)
		env.Kind(fmt.Sprintf("%s:%v:%v", kind, r.Err == nil, fired))
		if fired {
			env.Fault("edit-error:" + kind)
			if r.Err == nil {
				env.Fail("storage-error-fails-statement", "injected-error-swallowed:"+kind, "storage error injected at edit call %d of %q, but the statement reported success", armed, q)
				break
			}
		}
		if r.Err != nil {
			if !fired {
				env.Fail("valid-statement-succeeds", "valid-statement-refused:"+kind, "%q failed: %v", q, r.Err)
				break
			}
			// failed: the model is rolled back; table and index must be as before
			m.docs = saved
			if rewrites {
				// known finding: the rewrite empties the full-text tables up front and a
				// failure does not bring their rows back; a failed ADD FULLTEXT INDEX
				// leaves the index defined
				env.ClassPrefix = "failed-rewrite/"
				if kind == "add-fulltext" {
					m.hasIndex = true
				}
			}
			if got := readTable(s); got != beforeTable {
				env.Fail("failed-statement-no-effect", "leftover-after-injected-error:"+kind, "%q failed with an injected storage error at edit call %d but the table changed:\nbefore: %s\nafter:  %s", q, armed, beforeTable, got)
				break
			}
			cur := sessions
			if txn != nil {
				sessions = []*Sess{txn} // the other session does not see the open transaction
			}
			ok := searches(step, q+" (failed)")
			sessions = cur
			if !ok {
				break
			}
			continue
		}
		switch kind {
		case "begin":
			txn, txnSaved = s, saved
		case "rollback":
			m.docs = txnSaved
			txn, txnSaved = nil, nil
			env.Fault("rollback")
		case "commit":
			txn, txnSaved = nil, nil
		case "drop-index":
			m.hasIndex = false
		case "add-fulltext":
			m.hasIndex = true
			env.Probe("fulltext-index-rebuilt-over-rows")
		case "add-column":
			m.extra = true
		case "drop-column":
			m.extra = false
		}
		_ = ddlOp
		if got := readTable(s); got != m.render() && txn == nil {
			env.Fail("table-equals-model", "table-differs:"+kind, "after %q the table is\n  %s\nthe model says\n  %s", q, got, m.render())
			break
		}
		if txn != nil {
			// inside the transaction only its own session is compared
			cur := sessions
			sessions = []*Sess{txn}
			ok := searches(step, q)
			sessions = cur
			if !ok {
				break
			}
		} else if !searches(step, q) {
			break
		}
		if len(m.docs) > 0 {
			env.Nontrivial()
		}
	}
}

// caseOnly: a and b differ, but only in letter case.
func caseOnly(a, b *string) bool {
	return a != nil && b != nil && *a != *b && strings.EqualFold(*a, *b)
}

package sqlsim

import (
	"fmt"
	"sort"
	"strings"

	"verif/sim/kernel"
)

// C23: triggers. A generated set of BEFORE / AFTER INSERT / UPDATE / DELETE
// triggers on table t (several per time and event, placed with FOLLOWS /
// PRECEDES, created and dropped during the history), whose bodies change NEW,
// write an audit row into lg, or SIGNAL on a condition. Two sessions run
// multi-row INSERT / UPDATE / DELETE; failures are planted (duplicate key in
// the middle of a statement, SIGNAL at a chosen row, storage error at a drawn
// edit call of t or lg).
//
// Oracle, after every statement: t equals the model (BEFORE triggers' changes
// to NEW are what is stored); the audit rows written by the statement are, row
// by row, exactly the model's sequence (each trigger once per affected row, in
// the prescribed order, with the OLD / NEW values it must see); a failed
// statement leaves neither rows in t nor audit rows in lg.

type trigOp struct {
	kind string // log, setA, setB, signal
	k    int64
}

type trigDef struct {
	name  string
	time  string // BEFORE, AFTER
	event string // INSERT, UPDATE, DELETE
	ops   []trigOp
	ref   string // the trigger named in FOLLOWS / PRECEDES at creation
}

type trigRow struct{ id, a, b int64 }

type trigLog struct {
	trig       string
	rid        int64
	olda, newa string
	newb       string
}

func (l trigLog) String() string {
	return fmt.Sprintf("%s(rid=%d old.a=%s new.a=%s new.b=%s)", l.trig, l.rid, l.olda, l.newa, l.newb)
}

func (d *trigDef) sql(place string) string {
	var body []string
	for _, op := range d.ops {
		switch op.kind {
		case "log":
			switch d.event {
			case "INSERT":
				body = append(body, fmt.Sprintf("INSERT INTO lg (trig, rid, olda, newa, newb) VALUES ('%s', NEW.id, NULL, NEW.a, NEW.b)", d.name))
			case "UPDATE":
				body = append(body, fmt.Sprintf("INSERT INTO lg (trig, rid, olda, newa, newb) VALUES ('%s', NEW.id, OLD.a, NEW.a, NEW.b)", d.name))
			default:
				body = append(body, fmt.Sprintf("INSERT INTO lg (trig, rid, olda, newa, newb) VALUES ('%s', OLD.id, OLD.a, NULL, NULL)", d.name))
			}
		case "declB":
			// a local variable: declared (with its default) anew for every row the trigger runs for
			body = append(body, "SET acc = acc + NEW.a", "SET NEW.b = acc")
		case "setA":
			body = append(body, fmt.Sprintf("SET NEW.a = NEW.a + %d", op.k))
		case "setB":
			if d.event == "UPDATE" {
				body = append(body, "SET NEW.b = OLD.a")
			} else {
				body = append(body, "SET NEW.b = NEW.a * 2")
			}
		case "signal":
			ref := "NEW.a"
			if d.event == "DELETE" {
				ref = "OLD.a"
			}
			body = append(body, fmt.Sprintf("IF %s = %d THEN SIGNAL SQLSTATE '45000' SET MESSAGE_TEXT = 'refused by trigger'; END IF", ref, op.k))
		}
	}
	for _, op := range d.ops {
		if op.kind == "declB" {
			body = append([]string{"DECLARE acc INT DEFAULT 5"}, body...)
			break
		}
	}
	return fmt.Sprintf("CREATE TRIGGER %s %s %s ON t FOR EACH ROW%s BEGIN %s; END", d.name, d.time, d.event, place, strings.Join(body, "; "))
}

// fire runs the trigger's body on (old, nw) in the model. It returns the audit
// rows written and whether the body signalled.
func (d *trigDef) fire(old, nw *trigRow) (logs []trigLog, signalled bool) {
	num := func(r *trigRow, f func(*trigRow) int64) string {
		if r == nil {
			return "NULL"
		}
		return fmt.Sprint(f(r))
	}
	acc := int64(5)
	for _, op := range d.ops {
		switch op.kind {
		case "declB":
			acc += nw.a
			nw.b = acc
		case "log":
			rid := int64(0)
			if nw != nil {
				rid = nw.id
			} else {
				rid = old.id
			}
			logs = append(logs, trigLog{d.name, rid, num(old, func(r *trigRow) int64 { return r.a }), num(nw, func(r *trigRow) int64 { return r.a }), num(nw, func(r *trigRow) int64 { return r.b })})
		case "setA":
			nw.a += op.k
		case "setB":
			if d.event == "UPDATE" {
				nw.b = old.a
			} else {
				nw.b = nw.a * 2
			}
		case "signal":
			v := int64(0)
			if d.event == "DELETE" {
				v = old.a
			} else {
				v = nw.a
			}
			if v == op.k {
				return logs, true
			}
		}
	}
	return logs, false
}

type trigModel struct {
	rows  map[int64]*trigRow
	order map[string][]*trigDef // "BEFORE INSERT" -> triggers in firing order
}

func (m *trigModel) ids() []int64 {
	var out []int64
	for id := range m.rows {
		out = append(out, id)
	}
	sort.Slice(out, func(i, j int) bool { return out[i] < out[j] })
	return out
}

func (m *trigModel) cloneRows() map[int64]*trigRow {
	c := map[int64]*trigRow{}
	for id, r := range m.rows {
		x := *r
		c[id] = &x
	}
	return c
}

func (m *trigModel) render() string {
	var parts []string
	for _, id := range m.ids() {
		r := m.rows[id]
		parts = append(parts, fmt.Sprintf("(%d,%d,%d)", r.id, r.a, r.b))
	}
	return strings.Join(parts, " ")
}

type trigStmt struct {
	kind string
	sql  string
	ins  []trigRow
	pred func(r *trigRow) bool
	addA int64 // UPDATE: a = a + addA
	incB bool  // UPDATE: b = b + 1
}

// apply runs the statement in the model; returns affected rows, per-row audit
// sequences (keyed by row id, in firing order), and the failure kind ("" ok).
func (m *trigModel) apply(st *trigStmt) (int, map[int64][]trigLog, string) {
	logs := map[int64][]trigLog{}
	saved := m.cloneRows()
	fail := func(kind string) (int, map[int64][]trigLog, string) {
		m.rows = saved
		return 0, nil, kind
	}
	runAll := func(key string, old, nw *trigRow, rid int64) bool {
		for _, d := range m.order[key] {
			l, sig := d.fire(old, nw)
			logs[rid] = append(logs[rid], l...)
			if sig {
				return false
			}
		}
		return true
	}
	n := 0
	switch st.kind {
	case "insert":
		for _, r := range st.ins {
			nw := r
			if !runAll("BEFORE INSERT", nil, &nw, nw.id) {
				return fail("signal")
			}
			if _, dup := m.rows[nw.id]; dup {
				return fail("duplicate-key")
			}
			m.rows[nw.id] = &nw
			stored := nw
			if !runAll("AFTER INSERT", nil, &stored, nw.id) {
				return fail("signal")
			}
			n++
		}
	case "update":
		for _, id := range m.ids() {
			cur := m.rows[id]
			if !st.pred(cur) {
				continue
			}
			old := *cur
			nw := old
			nw.a += st.addA
			if st.incB {
				nw.b++
			}
			if !runAll("BEFORE UPDATE", &old, &nw, id) {
				return fail("signal")
			}
			*cur = nw
			stored := nw
			if !runAll("AFTER UPDATE", &old, &stored, id) {
				return fail("signal")
			}
			if nw != old {
				n++ // affected = changed; a BEFORE trigger may have put the old value back
			}
		}
	case "delete":
		for _, id := range m.ids() {
			cur := m.rows[id]
			if !st.pred(cur) {
				continue
			}
			old := *cur
			if !runAll("BEFORE DELETE", &old, nil, id) {
				return fail("signal")
			}
			delete(m.rows, id)
			if !runAll("AFTER DELETE", &old, nil, id) {
				return fail("signal")
			}
			n++
		}
	}
	return n, logs, ""
}

func checkC23(env *kernel.Env) {
	T := env.T
	w := NewWorld(env)
	defer w.Close()
	sessions := []*Sess{w.NewSession(), w.NewSession()}
	s1 := sessions[0]
	s1.MustExec("CREATE TABLE t (id INT PRIMARY KEY, a INT NOT NULL, b INT NOT NULL)")
	s1.MustExec("CREATE TABLE lg (seq INT AUTO_INCREMENT PRIMARY KEY, trig VARCHAR(16), rid INT, olda INT, newa INT, newb INT, chk INT)")
	// second level: in half of the runs the audit table has a trigger of its own,
	// so every audit row written by a trigger of t must fire it (nested triggers)
	s1.MustExec("CREATE TABLE lg2 (seq INT AUTO_INCREMENT PRIMARY KEY, trig VARCHAR(16), rid INT)")
	nestedKind := T.Draw(3) // 0 none, 1 AFTER INSERT, 2 BEFORE INSERT that also assigns to the audit row
	nested := nestedKind > 0
	switch nestedKind {
	case 1:
		s1.MustExec("CREATE TRIGGER lgtr AFTER INSERT ON lg FOR EACH ROW INSERT INTO lg2 (trig, rid) VALUES (NEW.trig, NEW.rid)")
	case 2:
		// the inner trigger must see the audit row the outer trigger built (not the outer
		// statement's row) and its assignment must reach the stored audit row
		s1.MustExec("CREATE TRIGGER lgtr BEFORE INSERT ON lg FOR EACH ROW BEGIN SET NEW.chk = NEW.rid * 2 + 1; INSERT INTO lg2 (trig, rid) VALUES (NEW.trig, NEW.rid); END")
	}
	lastSeq2 := int64(0)
	readLog2 := func(s *Sess) []string {
		r := s.Exec(fmt.Sprintf("SELECT seq, trig, rid FROM lg2 WHERE seq > %d ORDER BY seq", lastSeq2))
		var out []string
		if r.Err != nil {
			return []string{"ERROR " + ErrClass(r.Err)}
		}
		for _, row := range r.Rows {
			var seq int64
			fmt.Sscan(FormatVal(row[0]), &seq)
			if seq > lastSeq2 {
				lastSeq2 = seq
			}
			out = append(out, strings.Trim(FormatVal(row[1]), "'")+":"+FormatVal(row[2]))
		}
		return out
	}
	m := &trigModel{rows: map[int64]*trigRow{}, order: map[string][]*trigDef{}}
	// failures inside a statement whose triggers write to lg meet a known defect
	// of the in-memory backend (no savepoints): most runs stay away from it
	avoidFailures := env.Avoid("trigger-effects-not-atomic")
	ntrig := 0
	times := []string{"BEFORE", "AFTER"}
	events := []string{"INSERT", "UPDATE", "DELETE"}
	createTrigger := func(s *Sess) {
		ntrig++
		d := &trigDef{name: fmt.Sprintf("tr%d", ntrig), time: times[T.Draw(2)], event: events[T.Draw(3)]}
		nops := T.Range(1, 3)
		for i := 0; i < nops; i++ {
			switch {
			case d.time == "BEFORE" && d.event != "DELETE" && T.Bool(1, 3):
				switch T.Draw(3) {
				case 0:
					d.ops = append(d.ops, trigOp{"setA", int64(T.Range(1, 3))})
				case 1:
					d.ops = append(d.ops, trigOp{"setB", 0})
				default:
					d.ops = append(d.ops, trigOp{"declB", 0})
				}
			case !avoidFailures && T.Bool(1, 6):
				d.ops = append(d.ops, trigOp{"signal", int64(T.Range(3, 9))})
			default:
				d.ops = append(d.ops, trigOp{"log", 0})
			}
		}
		key := d.time + " " + d.event
		place := ""
		list := m.order[key]
		pos := len(list)
		if len(list) > 0 && T.Bool(1, 2) {
			o := T.Draw(len(list))
			if T.Bool(1, 2) {
				place, pos = " FOLLOWS "+list[o].name, o+1
			} else {
				place, pos = " PRECEDES "+list[o].name, o
			}
			d.ref = list[o].name
		}
		q := d.sql(place)
		r := s.Exec(q)
		env.Logf("%s: %s -> %s", s.Name, q, ErrClass(r.Err))
		env.Kind("create-trigger:" + key + ":" + strings.Fields(place + " -")[0])
		if r.Err != nil {
			env.Fail("ddl-succeeds", "create-trigger-failed", "%q failed: %v", q, r.Err)
			return
		}
		nl := append([]*trigDef{}, list[:pos]...)
		nl = append(nl, d)
		nl = append(nl, list[pos:]...)
		m.order[key] = nl
		if place != "" {
			env.Probe("trigger-placed-with-follows-precedes")
		}
	}
	dropTrigger := func(s *Sess) {
		var keys []string
		for k, l := range m.order {
			if len(l) > 0 {
				keys = append(keys, k)
			}
		}
		if len(keys) == 0 {
			return
		}
		sort.Strings(keys)
		key := keys[T.Draw(len(keys))]
		i := T.Draw(len(m.order[key]))
		d := m.order[key][i]
		q := "DROP TRIGGER " + d.name
		r := s.Exec(q)
		env.Logf("%s: %s -> %s", s.Name, q, ErrClass(r.Err))
		env.Kind("drop-trigger")
		if r.Err != nil {
			// the engine keeps a trigger that another one names in FOLLOWS / PRECEDES
			// (MySQL would drop it); refusing is harmless for what is checked here
			for _, o := range m.order[key] {
				if o.ref == d.name && strings.Contains(r.Err.Error(), "referenced by trigger") {
					env.Probe("drop-of-referenced-trigger-refused")
					return
				}
			}
			env.Fail("ddl-succeeds", "drop-trigger-failed", "%q failed: %v", q, r.Err)
			return
		}
		m.order[key] = append(append([]*trigDef{}, m.order[key][:i]...), m.order[key][i+1:]...)
	}
	for i, n := 0, T.Range(1, 6); i < n && !env.Failed(); i++ {
		createTrigger(s1)
	}
	nextID := int64(0)
	genStmt := func() *trigStmt {
		st := &trigStmt{}
		genPred := func() string {
			switch T.Pick(3, 2, 2, 1) {
			case 0:
				ids := m.ids()
				c := int64(1)
				if len(ids) > 0 {
					c = ids[T.Draw(len(ids))]
				}
				st.pred = func(r *trigRow) bool { return r.id == c }
				return fmt.Sprintf(" WHERE id = %d", c)
			case 1:
				c := int64(T.Range(1, 10))
				st.pred = func(r *trigRow) bool { return r.a < c }
				return fmt.Sprintf(" WHERE a < %d", c)
			case 2:
				c := int64(T.Range(1, 10))
				st.pred = func(r *trigRow) bool { return r.a >= c }
				return fmt.Sprintf(" WHERE a >= %d", c)
			}
			st.pred = func(r *trigRow) bool { return true }
			return ""
		}
		switch T.Pick(4, 3, 2) {
		case 0:
			st.kind = "insert"
			n := T.Pick(3, 3, 2) + 1
			var tuples []string
			for i := 0; i < n; i++ {
				nextID++
				id := nextID
				if !avoidFailures && T.Bool(1, 10) {
					if ids := m.ids(); len(ids) > 0 {
						id = ids[T.Draw(len(ids))] // planted duplicate key
					}
				}
				r := trigRow{id, int64(T.Range(0, 9)), int64(T.Range(0, 9))}
				st.ins = append(st.ins, r)
				tuples = append(tuples, fmt.Sprintf("(%d, %d, %d)", r.id, r.a, r.b))
			}
			st.sql = "INSERT INTO t (id, a, b) VALUES " + strings.Join(tuples, ", ")
		case 1:
			st.kind = "update"
			if T.Bool(2, 3) {
				st.addA = int64(T.Range(1, 3))
				st.sql = fmt.Sprintf("UPDATE t SET a = a + %d", st.addA)
			} else {
				st.incB = true
				st.sql = "UPDATE t SET b = b + 1"
			}
			st.sql += genPred()
		default:
			st.kind = "delete"
			st.sql = "DELETE FROM t" + genPred()
		}
		return st
	}
	readT := func(s *Sess) string {
		r := s.Exec("SELECT id, a, b FROM t ORDER BY id")
		if r.Err != nil {
			return "ERROR " + ErrClass(r.Err)
		}
		return strings.Join(FormatRows(r.Rows, true), " ")
	}
	lastSeq := int64(0)
	readLog := func(s *Sess) ([]trigLog, string) {
		r := s.Exec(fmt.Sprintf("SELECT seq, trig, rid, olda, newa, newb, chk FROM lg WHERE seq > %d ORDER BY seq", lastSeq))
		if r.Err != nil {
			return nil, "ERROR " + ErrClass(r.Err)
		}
		for _, row := range r.Rows {
			var rid int64
			fmt.Sscan(FormatVal(row[2]), &rid)
			wantChk := "NULL"
			if nestedKind == 2 {
				wantChk = fmt.Sprint(rid*2 + 1)
			}
			if got := FormatVal(row[6]); got != wantChk {
				env.Fail("nested-trigger-sees-its-row", "nested-before-trigger-wrong-row", "audit row %s (written by trigger %s for row %d) has chk = %s; the BEFORE INSERT trigger of the audit table sets it to rid * 2 + 1 = %s", FormatVal(row[0]), FormatVal(row[1]), rid, got, wantChk)
				return nil, "ERROR chk"
			}
		}
		var out []trigLog
		for _, row := range r.Rows {
			var seq, rid int64
			fmt.Sscan(FormatVal(row[0]), &seq)
			fmt.Sscan(FormatVal(row[2]), &rid)
			if seq > lastSeq {
				lastSeq = seq
			}
			out = append(out, trigLog{strings.Trim(FormatVal(row[1]), "'"), rid, FormatVal(row[3]), FormatVal(row[4]), FormatVal(row[5])})
		}
		return out, ""
	}
	steps := T.Range(5, 24)
	if env.Tier == "thorough" {
		steps = T.Range(5, 40)
	}
	faults := !avoidFailures && T.Bool(1, 2)
	for step := 0; step < steps && !env.Failed(); step++ {
		s := sessions[T.Draw(2)]
		switch T.Pick(12, 1, 1) {
		case 1:
			createTrigger(s)
			continue
		case 2:
			dropTrigger(s)
			continue
		}
		st := genStmt()
		before := m.render()
		wantN, wantLogs, wantErr := m.apply(st)
		armed := 0
		if faults && T.Bool(1, 4) {
			armed = T.Range(1, 5)
			w.Arm(armed, "")
		}
		r, pan := s.ExecRecover(st.sql)
		fired := w.Fired()
		w.ResetEditCount()
		if pan != "" {
			env.Fail("no-panic", "panic:"+pan, "%q panicked in %s", st.sql, pan)
			break
		}
		cls := ErrClass(r.Err)
		if strings.Contains(cls, "refused by trigger") {
			cls = "signal"
		}
		env.Logf("%s: %s -> %s affected=%d  [model: %s affected=%d; fault fired: %v]", s.Name, st.sql, cls, r.Affected, okOr(wantErr), wantN, fired)
		env.Kind(fmt.Sprintf("%s:%s:%v", st.kind, clsKind(cls), fired))
		gotT := readT(s)
		gotLogs, lerr := readLog(s)
		if lerr != "" {
			env.Fail("log-readable", "log-read-failed", "reading lg failed: %s", lerr)
			break
		}
		if fired {
			env.Fault("edit-error:" + st.kind)
			// the statement must fail as a whole: roll the model back
			if wantErr == "" {
				m.rows = parseTrigRows(before)
			}
			if r.Err == nil {
				env.Fail("storage-error-fails-statement", "injected-error-swallowed:"+st.kind, "storage error injected at edit call %d of %q, but the statement reported success", armed, st.sql)
				break
			}
			wantErr = "injected"
		}
		if wantErr != "" {
			env.Fault("failure:" + wantErr)
			if r.Err == nil {
				env.Fail("violating-statement-fails", "failure-not-raised:"+wantErr, "%q succeeded; the model says it fails with %s", st.sql, wantErr)
				break
			}
			if wantErr != "injected" && cls != wantErr {
				env.Fail("error-kind", "wrong-error-kind:"+wantErr+"-vs-"+clsKind(cls), "%q failed with %v; the model expects %s", st.sql, r.Err, wantErr)
				break
			}
			// the known defect needs a trigger of this event that writes to lg
			prefix := "leftover:"
			if wantErr == "signal" {
				prefix = "leftover-trig:" // .. or an error raised inside a trigger
			}
			for _, tm := range times {
				for _, d := range m.order[tm+" "+strings.ToUpper(st.kind)] {
					for _, op := range d.ops {
						if op.kind == "log" {
							prefix = "leftover-trig:"
						}
					}
				}
			}
			if gotT != before {
				env.Fail("effects-discarded-with-statement", prefix+"rows:"+st.kind+":"+wantErr, "%q failed (%s) but t changed:\nbefore: %s\nafter:  %s", st.sql, cls, before, gotT)
				break
			}
			if l2 := readLog2(s); len(l2) > 0 && len(gotLogs) == 0 {
				env.Fail("effects-discarded-with-statement", prefix+"nested-audit:"+st.kind+":"+wantErr, "%q failed (%s) but %d row(s) written by the nested trigger survive: %v", st.sql, cls, len(l2), l2)
				break
			}
			if len(gotLogs) > 0 {
				env.Fail("effects-discarded-with-statement", prefix+"audit:"+st.kind+":"+wantErr, "%q failed (%s) but %d audit row(s) written by its triggers survive: %v", st.sql, cls, len(gotLogs), gotLogs)
				break
			}
			continue
		}
		if r.Err != nil {
			env.Fail("valid-statement-succeeds", "valid-statement-refused:"+st.kind+":"+clsKind(cls), "%q failed (%v); the model says it is valid", st.sql, r.Err)
			break
		}
		if gotT != m.render() {
			env.Fail("before-trigger-changes-stored", "table-differs:"+st.kind, "after %q t is\n  %s\nthe model (NEW as left by the BEFORE triggers) says\n  %s", st.sql, gotT, m.render())
			break
		}
		if int(r.Affected) != wantN {
			env.Fail("affected-rows", "affected-rows-differ:"+st.kind, "%q reports %d affected row(s), the model %d", st.sql, r.Affected, wantN)
			break
		}
		// the nested trigger fired once for every audit row, in the same order
		if l2 := readLog2(s); nested || len(l2) > 0 {
			var want []string
			if nested {
				for _, l := range gotLogs {
					want = append(want, fmt.Sprintf("%s:%d", l.trig, l.rid))
				}
			}
			if fmt.Sprint(l2) != fmt.Sprint(want) {
				cls := "nested-trigger-sequence-differs"
				if len(l2) < len(want) {
					cls = "nested-trigger-not-fired"
				} else if len(l2) > len(want) {
					cls = "nested-trigger-fired-too-often"
				}
				env.Fail("once-per-row-in-order", cls+":"+st.kind, "after %q the triggers of t wrote the audit rows %v, but the trigger on the audit table wrote %v", st.sql, want, l2)
				break
			}
			if len(want) > 0 {
				env.Probe("nested-trigger-checked")
			}
		}
		// audit rows: per affected row, exactly the model's sequence
		got := map[int64][]trigLog{}
		for _, l := range gotLogs {
			got[l.rid] = append(got[l.rid], l)
		}
		rids := map[int64]bool{}
		for id := range got {
			rids[id] = true
		}
		for id := range wantLogs {
			rids[id] = true
		}
		var ridList []int64
		for id := range rids {
			ridList = append(ridList, id)
		}
		sort.Slice(ridList, func(i, j int) bool { return ridList[i] < ridList[j] })
		for _, id := range ridList {
			g, wnt := fmt.Sprint(got[id]), fmt.Sprint(wantLogs[id])
			if g == wnt {
				if len(wantLogs[id]) > 1 {
					env.Probe("multi-trigger-row-checked")
				}
				continue
			}
			cls := "trigger-sequence-differs"
			switch {
			case len(got[id]) > len(wantLogs[id]):
				cls = "trigger-fired-too-often"
			case len(got[id]) < len(wantLogs[id]):
				cls = "trigger-not-fired"
			default:
				sameNames := true
				for i := range got[id] {
					if got[id][i].trig != wantLogs[id][i].trig {
						sameNames = false
					}
				}
				if sameNames {
					cls = "trigger-saw-wrong-values"
				} else {
					cls = "trigger-order-differs"
				}
			}
			env.Fail("once-per-row-in-order", cls+":"+st.kind, "after %q the triggers' audit rows for row %d are\n  %s\nthe model says\n  %s", st.sql, id, g, wnt)
			break
		}
		if len(m.order) > 0 {
			env.Nontrivial()
		}
	}
}

func okOr(s string) string {
	if s == "" {
		return "ok"
	}
	return s
}

func parseTrigRows(s string) map[int64]*trigRow {
	out := map[int64]*trigRow{}
	for _, f := range strings.Fields(s) {
		var r trigRow
		if _, err := fmt.Sscanf(f, "(%d,%d,%d)", &r.id, &r.a, &r.b); err == nil {
			x := r
			out[r.id] = &x
		}
	}
	return out
}

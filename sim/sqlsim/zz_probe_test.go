package sqlsim

import (
	"fmt"
	"os"
	"strings"
	"testing"

	"verif/sim/kernel"
)

// TestProbe runs the statements of $PROBE_SQL (separated by ;;) and prints the outcomes.
func TestProbe(t *testing.T) {
	src := os.Getenv("PROBE_SQL")
	if src == "" {
		t.Skip()
	}
	env := kernel.NewEnv(kernel.NewGenTape(1, "probe", 0), "quick")
	w := NewWorld(env)
	defer w.Close()
	s := w.NewSession()
	for _, q := range strings.Split(src, ";;") {
		q = strings.TrimSpace(q)
		if q == "" {
			continue
		}
		r := s.Exec(q)
		if r.Err != nil {
			fmt.Printf("%s\n   -> ERROR %v\n", q, r.Err)
			if os.Getenv("PROBE_STACK") != "" {
				fmt.Printf("%+v\n", r.Err)
			}
			continue
		}
		if r.IsOk {
			fmt.Printf("%s\n   -> OK affected=%d insert_id=%d warnings=%d\n", q, r.Affected, r.InsertID, r.Warnings)
			continue
		}
		fmt.Printf("%s\n   -> %s\n", q, strings.Join(FormatRows(r.Rows, true), " "))
	}
}

package sqlsim

import (
	"fmt"
	"os"
	"strings"
	"testing"

	"verif/sim/kernel"
)

// TestProbe runs the statements of $PROBE_SQL (separated by ;;) and prints the outcomes.
func TestProbe(t *testing.T) {
	src := os.Getenv("PROBE_SQL")
	if src == "" {
		t.Skip()
	}
	env := kernel.NewEnv(kernel.NewGenTape(1, "probe", 0), "quick")
	w := NewWorld(env)
	defer w.Close()
	s1, s2 := w.NewSession(), w.NewSession()
	for _, q := range strings.Split(src, ";;") {
		q = strings.TrimSpace(q)
		if q == "" {
			continue
		}
		s := s1
		if strings.HasPrefix(q, "@2 ") { // run on the second session
			s, q = s2, strings.TrimPrefix(q, "@2 ")
		}
		if strings.HasPrefix(q, "!fault ") { // !fault k: arm the k-th edit call of the next statement
			var k int
			fmt.Sscanf(q, "!fault %d", &k)
			w.Arm(k, "")
			continue
		}
		r := s.Exec(q)
		if r.Err != nil {
			fmt.Printf("%s\n   -> ERROR %v\n", q, r.Err)
			if os.Getenv("PROBE_STACK") != "" {
				fmt.Printf("%+v\n", r.Err)
			}
			continue
		}
		if r.IsOk {
			fmt.Printf("%s\n   -> OK affected=%d insert_id=%d warnings=%d\n", q, r.Affected, r.InsertID, r.Warnings)
			continue
		}
		fmt.Printf("%s\n   -> %s\n", q, strings.Join(FormatRows(r.Rows, true), " "))
	}
}

// Package simnet is the simulated network of World B: net.Listener / net.Conn
// whose byte delivery is decided by the simulator. A connection is two
// half-connections, each an (in flight, delivered) pair of byte queues. Write
// appends to "in flight" (or blocks durably while a bounded half is full);
// Read blocks durably until the scheduler has moved bytes to "delivered".
// TCP-like: bytes of one connection are never reordered, duplicated or
// corrupted. Everything that blocks waits on a channel created inside the
// synctest bubble, so synctest.Wait sees it as durably blocked.
package simnet

import (
	"errors"
	"fmt"
	"io"
	"net"
	"os"
	"sort"
	"sync"
	"time"
)

// ErrReset is returned by reads and writes on a reset connection.
var ErrReset = errors.New("simnet: connection reset by peer")

type addr string

func (a addr) Network() string { return "sim" }
func (a addr) String() string  { return string(a) }

// Half is one direction of a connection.
type Half struct {
	Name      string
	inflight  []byte
	delivered []byte
	closed    bool // writer closed: EOF once drained
	reset     bool
	capacity  int // 0 = unbounded
	waiters   []chan struct{}
	Written   int
	Read      int
}

// Net owns all connections of one run.
type Net struct {
	mu       sync.Mutex
	conns    []*Conn // server-side ends, in accept order
	accept   chan *Conn
	closed   bool
	nextID   int
	ClientIP func(id int) string
	// ServerToClientCap bounds the next connections' server->client half (back-pressure knob).
	ServerToClientCap int
}

// New creates an empty network.
func New() *Net {
	return &Net{accept: make(chan *Conn, 64)}
}

// Conn is one end of a connection.
type Conn struct {
	n        *Net
	ID       int
	server   bool
	rd, wr   *Half
	mu       sync.Mutex
	rdl, wdl time.Time
	local    addr
	remote   addr
	closedMe bool
}

func (n *Net) wake(h *Half) {
	for _, w := range h.waiters {
		close(w)
	}
	h.waiters = nil
}

// Dial creates a connection and hands its server end to the listener.
func (n *Net) Dial() (net.Conn, error) {
	n.mu.Lock()
	if n.closed {
		n.mu.Unlock()
		return nil, errors.New("simnet: listener closed")
	}
	n.nextID++
	id := n.nextID
	c2s := &Half{Name: fmt.Sprintf("c%d>s", id)}
	s2c := &Half{Name: fmt.Sprintf("s>c%d", id), capacity: n.ServerToClientCap}
	ip := "127.0.0.1"
	if n.ClientIP != nil {
		ip = n.ClientIP(id)
	}
	cl := &Conn{n: n, ID: id, rd: s2c, wr: c2s, local: addr(fmt.Sprintf("%s:%d", ip, 40000+id)), remote: "10.0.0.1:3306"}
	sv := &Conn{n: n, ID: id, server: true, rd: c2s, wr: s2c, local: "10.0.0.1:3306", remote: cl.local}
	n.conns = append(n.conns, sv)
	n.mu.Unlock()
	n.accept <- sv
	return cl, nil
}

// NextID is the id the next Dial will get.
func (n *Net) NextID() int {
	n.mu.Lock()
	defer n.mu.Unlock()
	return n.nextID + 1
}

// Listener returns the net.Listener to hand to the server.
func (n *Net) Listener() net.Listener { return &listener{n} }

type listener struct{ n *Net }

func (l *listener) Accept() (net.Conn, error) {
	c, ok := <-l.n.accept
	if !ok {
		return nil, errors.New("simnet: listener closed")
	}
	return c, nil
}
func (l *listener) Close() error {
	l.n.mu.Lock()
	defer l.n.mu.Unlock()
	if !l.n.closed {
		l.n.closed = true
		close(l.n.accept)
	}
	return nil
}
func (l *listener) Addr() net.Addr { return addr("10.0.0.1:3306") }

// ---- net.Conn ----

func (c *Conn) Read(p []byte) (int, error) {
	for {
		c.n.mu.Lock()
		h := c.rd
		if len(h.delivered) > 0 {
			k := copy(p, h.delivered)
			h.delivered = h.delivered[k:]
			h.Read += k
			// space was freed: a writer blocked on a full half may go on
			c.n.wake(h)
			c.n.mu.Unlock()
			return k, nil
		}
		if h.reset || c.wr.reset {
			c.n.mu.Unlock()
			return 0, ErrReset
		}
		if c.closedMe {
			c.n.mu.Unlock()
			return 0, net.ErrClosed
		}
		if h.closed && len(h.inflight) == 0 {
			c.n.mu.Unlock()
			return 0, io.EOF
		}
		c.mu.Lock()
		dl := c.rdl
		c.mu.Unlock()
		if !dl.IsZero() && !time.Now().Before(dl) {
			c.n.mu.Unlock()
			return 0, os.ErrDeadlineExceeded
		}
		w := make(chan struct{})
		h.waiters = append(h.waiters, w)
		c.n.mu.Unlock()
		if dl.IsZero() {
			<-w
		} else {
			t := time.NewTimer(time.Until(dl))
			select {
			case <-w:
				t.Stop()
			case <-t.C:
			}
		}
	}
}

func (c *Conn) Write(p []byte) (int, error) {
	written := 0
	for len(p) > 0 {
		c.n.mu.Lock()
		h := c.wr
		if h.reset || c.rd.reset {
			c.n.mu.Unlock()
			return written, ErrReset
		}
		if c.closedMe || h.closed {
			c.n.mu.Unlock()
			return written, net.ErrClosed
		}
		room := len(p)
		if h.capacity > 0 {
			room = h.capacity - len(h.inflight) - len(h.delivered)
			if room > len(p) {
				room = len(p)
			}
		}
		if room > 0 {
			h.inflight = append(h.inflight, p[:room]...)
			h.Written += room
			p = p[room:]
			written += room
			c.n.mu.Unlock()
			continue
		}
		c.mu.Lock()
		dl := c.wdl
		c.mu.Unlock()
		if !dl.IsZero() && !time.Now().Before(dl) {
			c.n.mu.Unlock()
			return written, os.ErrDeadlineExceeded
		}
		w := make(chan struct{})
		h.waiters = append(h.waiters, w)
		c.n.mu.Unlock()
		if dl.IsZero() {
			<-w
		} else {
			t := time.NewTimer(time.Until(dl))
			select {
			case <-w:
				t.Stop()
			case <-t.C:
			}
		}
	}
	return written, nil
}

// Close closes this end: the peer reads EOF after draining what was sent.
func (c *Conn) Close() error {
	c.n.mu.Lock()
	defer c.n.mu.Unlock()
	if c.closedMe {
		return nil
	}
	c.closedMe = true
	c.wr.closed = true
	c.n.wake(c.wr)
	c.n.wake(c.rd)
	return nil
}

func (c *Conn) LocalAddr() net.Addr  { return c.local }
func (c *Conn) RemoteAddr() net.Addr { return c.remote }
func (c *Conn) SetDeadline(t time.Time) error {
	c.SetReadDeadline(t)
	return c.SetWriteDeadline(t)
}
func (c *Conn) SetReadDeadline(t time.Time) error {
	c.mu.Lock()
	c.rdl = t
	c.mu.Unlock()
	c.n.mu.Lock()
	c.n.wake(c.rd) // a blocked Read re-evaluates its deadline
	c.n.mu.Unlock()
	return nil
}
func (c *Conn) SetWriteDeadline(t time.Time) error {
	c.mu.Lock()
	c.wdl = t
	c.mu.Unlock()
	c.n.mu.Lock()
	c.n.wake(c.wr)
	c.n.mu.Unlock()
	return nil
}

// ---- scheduler side ----

// Pending describes deliverable bytes on one half-connection.
type Pending struct {
	Half  *Half
	Bytes int
}

// PendingHalves lists halves with bytes in flight, in canonical order.
func (n *Net) PendingHalves() []Pending {
	n.mu.Lock()
	defer n.mu.Unlock()
	var out []Pending
	for _, sv := range n.conns {
		for _, h := range []*Half{sv.rd, sv.wr} {
			if len(h.inflight) > 0 && !h.reset {
				room := len(h.inflight)
				if h.capacity > 0 {
					// delivered bytes count against the bound too
					if len(h.delivered) >= h.capacity {
						room = 0
					}
				}
				if room > 0 {
					out = append(out, Pending{h, len(h.inflight)})
				}
			}
		}
	}
	sort.SliceStable(out, func(i, j int) bool { return out[i].Half.Name < out[j].Half.Name })
	return out
}

// Deliver moves k bytes (all when k <= 0 or k >= in flight) to the reader.
func (n *Net) Deliver(h *Half, k int) int {
	n.mu.Lock()
	defer n.mu.Unlock()
	if k <= 0 || k > len(h.inflight) {
		k = len(h.inflight)
	}
	if h.capacity > 0 && k > h.capacity-len(h.delivered) {
		k = h.capacity - len(h.delivered)
		if k < 0 {
			k = 0
		}
	}
	h.delivered = append(h.delivered, h.inflight[:k]...)
	h.inflight = h.inflight[k:]
	n.wake(h)
	return k
}

// Reset makes both halves of connection id fail from now on.
func (n *Net) Reset(id int) {
	n.mu.Lock()
	defer n.mu.Unlock()
	for _, sv := range n.conns {
		if sv.ID == id {
			sv.rd.reset, sv.wr.reset = true, true
			sv.rd.inflight, sv.wr.inflight = nil, nil
			n.wake(sv.rd)
			n.wake(sv.wr)
		}
	}
}

// SetCap bounds the server->client half of connection id (0 = unbounded).
func (n *Net) SetCap(id, capacity int) {
	n.mu.Lock()
	defer n.mu.Unlock()
	for _, sv := range n.conns {
		if sv.ID == id {
			sv.wr.capacity = capacity
			n.wake(sv.wr)
		}
	}
}

// InFlight reports whether any half has undelivered bytes.
func (n *Net) InFlight() bool { return len(n.PendingHalves()) > 0 }

// Stats returns total bytes written over all halves.
func (n *Net) Stats() (bytes int) {
	n.mu.Lock()
	defer n.mu.Unlock()
	for _, sv := range n.conns {
		bytes += sv.rd.Written + sv.wr.Written
	}
	return
}

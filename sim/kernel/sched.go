package kernel

import (
	"fmt"
	"runtime"
	"sort"
	"sync"
	"time"
)

// Sched is the cooperative scheduler used inside a synctest bubble. Tasks are
// goroutines created by the harness (or system goroutines that identify
// themselves through a yield key); they park at armed yield sites until the
// scheduler - the bubble's root goroutine - resumes them. All channels are
// created inside the bubble, so a parked goroutine is durably blocked and
// synctest.Wait returns once everybody is parked, idle, sleeping or done.
type Sched struct {
	mu    sync.Mutex
	env   *Env
	tasks map[string]*Task
	byGid map[uint64]*Task
	armed map[string]bool
	// Dyn: unregistered goroutines hitting an armed site park under the name
	// "<site>#<key>" when DynPark is true.
	DynPark bool
	hits    map[string]int
}

// Task is one schedulable goroutine.
type Task struct {
	Name  string
	s     *Sched
	ops   chan func()
	state int // 0 idle, 1 running, 2 stopped
	site  string
	wake  chan struct{}
	dyn   bool
	OpSeq int
}

// NewSched creates a scheduler bound to env.
func NewSched(env *Env) *Sched {
	return &Sched{env: env, tasks: map[string]*Task{}, byGid: map[uint64]*Task{}, armed: map[string]bool{}, hits: map[string]int{}}
}

// Arm arms a yield site for this run.
func (s *Sched) Arm(site string) { s.armed[site] = true }

// ArmedSites lists the armed sites, sorted.
func (s *Sched) ArmedSites() []string {
	var out []string
	for k := range s.armed {
		out = append(out, k)
	}
	sort.Strings(out)
	return out
}

// DisarmAll disarms every site (parked goroutines stay parked until resumed).
func (s *Sched) DisarmAll() { s.armed = map[string]bool{} }

// Armed reports whether a site is armed.
func (s *Sched) Armed(site string) bool { return s.armed[site] }

func curGid() uint64 {
	var buf [64]byte
	n := runtime.Stack(buf[:], false)
	// "goroutine 123 ["
	var id uint64
	for i := len("goroutine "); i < n; i++ {
		c := buf[i]
		if c < '0' || c > '9' {
			break
		}
		id = id*10 + uint64(c-'0')
	}
	return id
}

// Spawn starts a task goroutine that executes operations handed to it by
// Start, one at a time.
func (s *Sched) Spawn(name string) *Task {
	t := &Task{Name: name, s: s, ops: make(chan func())}
	s.mu.Lock()
	if _, dup := s.tasks[name]; dup {
		s.mu.Unlock()
		Harnessf("duplicate task %s", name)
	}
	s.tasks[name] = t
	s.mu.Unlock()
	ready := make(chan struct{})
	go func() {
		s.mu.Lock()
		s.byGid[curGid()] = t
		s.mu.Unlock()
		close(ready)
		for op := range t.ops {
			op()
			s.mu.Lock()
			t.state = 0
			s.mu.Unlock()
		}
		s.mu.Lock()
		t.state = 2
		s.mu.Unlock()
	}()
	<-ready
	return t
}

// Adopt registers the calling goroutine as task name (for goroutines the
// harness starts itself and that run a single body).
func (s *Sched) Adopt(name string) *Task {
	t := &Task{Name: name, s: s, state: 1}
	s.mu.Lock()
	s.tasks[name] = t
	s.byGid[curGid()] = t
	s.mu.Unlock()
	return t
}

// Finish marks an adopted task as done.
func (t *Task) Finish() {
	t.s.mu.Lock()
	t.state = 2
	delete(t.s.byGid, curGid())
	t.s.mu.Unlock()
}

// Start hands the next operation to an idle task.
func (t *Task) Start(op func()) {
	t.s.mu.Lock()
	if t.state != 0 {
		t.s.mu.Unlock()
		Harnessf("task %s not idle", t.Name)
	}
	t.state = 1
	t.OpSeq++
	t.s.mu.Unlock()
	t.ops <- op
}

// Idle: waiting for an operation. Only meaningful after synctest.Wait.
func (t *Task) Idle() bool { t.s.mu.Lock(); defer t.s.mu.Unlock(); return t.state == 0 }

// Done: the task goroutine has ended.
func (t *Task) Done() bool { t.s.mu.Lock(); defer t.s.mu.Unlock(); return t.state == 2 }

// Parked returns the site the task is parked at, if any.
func (t *Task) Parked() (string, bool) {
	t.s.mu.Lock()
	defer t.s.mu.Unlock()
	return t.site, t.wake != nil
}

// Blocked: running but not parked, i.e. (after synctest.Wait) durably
// blocked on a timer or on something another task must do.
func (t *Task) Blocked() bool {
	t.s.mu.Lock()
	defer t.s.mu.Unlock()
	return t.state == 1 && t.wake == nil
}

// Resume releases a parked task.
func (t *Task) Resume() {
	t.s.mu.Lock()
	w := t.wake
	t.wake = nil
	t.site = ""
	t.s.mu.Unlock()
	if w == nil {
		Harnessf("resume of task %s which is not parked", t.Name)
	}
	close(w)
}

// Close ends a spawned task's goroutine (it must be idle).
func (t *Task) Close() { close(t.ops) }

// Yield is installed as verifhook.YieldFn.
func (s *Sched) Yield(site string, key uint64) {
	if !s.armed[site] {
		return
	}
	gid := curGid()
	s.mu.Lock()
	t := s.byGid[gid]
	if t == nil {
		if !s.DynPark {
			s.mu.Unlock()
			return
		}
		name := fmt.Sprintf("%s#%d", site, key)
		if old := s.tasks[name]; old != nil && old.wake != nil {
			// two goroutines with the same identity: do not park the second
			s.mu.Unlock()
			return
		}
		t = &Task{Name: name, s: s, state: 1, dyn: true}
		s.tasks[name] = t
	}
	s.hits[site]++
	w := make(chan struct{})
	t.site = site
	t.wake = w
	s.mu.Unlock()
	<-w
	if t.dyn {
		s.mu.Lock()
		if s.tasks[t.Name] == t && t.wake == nil {
			delete(s.tasks, t.Name)
		}
		s.mu.Unlock()
	}
}

// ParkedTasks returns the parked tasks sorted by name.
func (s *Sched) ParkedTasks() []*Task {
	s.mu.Lock()
	defer s.mu.Unlock()
	var out []*Task
	for _, t := range s.tasks {
		if t.wake != nil {
			out = append(out, t)
		}
	}
	sort.Slice(out, func(i, j int) bool { return out[i].Name < out[j].Name })
	return out
}

// Hits returns how often each armed site parked a goroutine.
func (s *Sched) Hits() map[string]int {
	s.mu.Lock()
	defer s.mu.Unlock()
	out := map[string]int{}
	for k, v := range s.hits {
		out[k] = v
	}
	return out
}

// Advance moves the simulated clock: the root goroutine sleeps d inside the
// bubble, so every timer of the system due before that fires in timer order.
func (s *Sched) Advance(d time.Duration) {
	time.Sleep(d)
	s.env.SimTimeNs += int64(d)
}

package kernel

import "time"

// Shrink minimises a failing tape while the same violation (oracle + class)
// persists. Passes: delete spans, zero spans, lower single values. The run
// function must be deterministic; acceptance requires the same oracle and
// class, so shrinking never wanders to a different bug.
func Shrink(fn CheckFn, tier string, opts map[string]string, start *Result, budget time.Duration, maxTries int) (*Result, int) {
	best := start
	tape := append([]uint32(nil), start.Tape...)
	deadline := time.Now().Add(budget)
	tries := 0
	try := func(cand []uint32) bool {
		if tries >= maxTries || time.Now().After(deadline) {
			return false
		}
		tries++
		r := RunOnce(fn, NewReplayTape(cand), tier, opts)
		if r.Violation != nil && r.Violation.Oracle == best.Violation.Oracle && r.Violation.Class == best.Violation.Class {
			// keep only what was actually consumed
			if len(r.Tape) <= len(cand) || len(r.Tape) <= len(tape) {
				best = r
				tape = append([]uint32(nil), r.Tape...)
				// trailing zeros are implied by an exhausted tape
				for len(tape) > 0 && tape[len(tape)-1] == 0 {
					tape = tape[:len(tape)-1]
				}
				return true
			}
		}
		return false
	}
	// normalise first: replay what was recorded
	try(tape)
	improved := true
	for improved && tries < maxTries && time.Now().Before(deadline) {
		improved = false
		// delete spans
		for size := len(tape) / 2; size >= 1; size /= 2 {
			for i := 0; i+size <= len(tape); {
				cand := append(append([]uint32(nil), tape[:i]...), tape[i+size:]...)
				if try(cand) {
					improved = true
				} else {
					i += size
				}
			}
		}
		// zero spans
		for size := 8; size >= 1; size /= 2 {
			for i := 0; i+size <= len(tape); i += size {
				allz := true
				for _, v := range tape[i : i+size] {
					if v != 0 {
						allz = false
					}
				}
				if allz {
					continue
				}
				cand := append([]uint32(nil), tape...)
				for j := i; j < i+size; j++ {
					cand[j] = 0
				}
				if try(cand) {
					improved = true
				}
			}
		}
		// lower single values
		for i := 0; i < len(tape); i++ {
			for i < len(tape) && tape[i] > 0 {
				cand := append([]uint32(nil), tape...)
				cand[i] = tape[i] / 2
				if try(cand) {
					improved = true
					continue
				}
				cand = append([]uint32(nil), tape...)
				cand[i] = tape[i] - 1
				if i < len(tape) && try(cand) {
					improved = true
					continue
				}
				break
			}
			if i >= len(tape) {
				break
			}
		}
	}
	return best, tries
}

package kernel

import (
	"crypto/sha256"
	"encoding/hex"
	"fmt"
	"hash/fnv"
	"runtime/debug"
	"sort"
	"strings"
)

// Violation describes the first oracle failure of a run.
type Violation struct {
	Oracle string `json:"oracle"`
	Class  string `json:"class"` // structural class used for known-finding matching and shrinking
	Step   int    `json:"step"`
	Msg    string `json:"message"`
}

// Env is the per-run environment handed to a check.
type Env struct {
	T    *Tape
	Tier string
	// Knobs set by the driver for sensitivity experiments etc.
	Opts map[string]string
	// ClassPrefix is put in front of every violation class of this run; checks
	// set it when the run uses a feature with a known, broad defect family, so
	// that those runs are matched structurally and all others stay strict.
	ClassPrefix string

	trace      []string
	kinds      []string
	faults     map[string]int
	probes     map[string]int
	viol       *Violation
	findings   []Violation
	step       int
	SimTimeNs  int64
	nontrivial bool
	flags      map[string]bool
	noTrace    bool
	avoidDrawn bool
	avoidOn    bool
}

// NewEnv creates an environment around a tape.
func NewEnv(t *Tape, tier string) *Env {
	return &Env{T: t, Tier: tier, faults: map[string]int{}, probes: map[string]int{}, flags: map[string]bool{}}
}

// Logf appends a human-readable line to the trace. It never draws and never
// reads a clock.
func (e *Env) Logf(format string, args ...any) {
	if len(e.trace) < 4000 {
		e.trace = append(e.trace, fmt.Sprintf(format, args...))
	}
}

// Kind records an abstract event kind for the trace fingerprint and advances
// the step counter.
func (e *Env) Kind(k string) {
	e.step++
	if len(e.kinds) < 4000 {
		e.kinds = append(e.kinds, k)
	}
}

// Step returns the number of Kind events so far.
func (e *Env) Step() int { return e.step }

// Fault counts a fault that actually fired.
func (e *Env) Fault(kind string) { e.faults[kind]++; e.nontrivial = true }

// Probe counts that a branch of interest was reached.
func (e *Env) Probe(name string) { e.probes[name]++ }

// ProbeN adds n to a probe.
func (e *Env) ProbeN(name string, n int) { e.probes[name] += n }

// Nontrivial marks the run as non-trivial by the check's stated rule.
func (e *Env) Nontrivial() { e.nontrivial = true }

// Flag records a boolean config of this run (fault-free/faulty, avoid...).
func (e *Env) Flag(name string, v bool) { e.flags[name] = v }

// Known reports whether id is listed as a known (open) finding for this check.
func (e *Env) Known(id string) bool {
	for _, k := range strings.Split(e.Opts["known"], "+") {
		if k == id {
			return true
		}
	}
	return false
}

// Avoid reports whether this run must steer its generator away from the
// known finding id: 80% of the runs avoid every known finding and must be
// completely clean, 20% do not and match findings structurally (DESIGN.md
// section 7). The share is drawn once per run, lazily, so that tapes of
// checks without known findings are unaffected. 0 (the shrinker's preferred
// value) means "do not avoid".
func (e *Env) Avoid(id string) bool {
	if !e.Known(id) {
		return false
	}
	if !e.avoidDrawn {
		e.avoidDrawn = true
		e.avoidOn = e.T.Draw(5) != 0
		e.Flag("avoid-known-findings", e.avoidOn)
		e.Flag("known-findings-allowed", !e.avoidOn)
	}
	return e.avoidOn
}

// Fail records a violation (the first one wins).
func (e *Env) Fail(oracle, class, format string, args ...any) {
	if e.viol != nil {
		return
	}
	e.viol = &Violation{Oracle: oracle, Class: e.ClassPrefix + class, Step: e.step, Msg: fmt.Sprintf(format, args...)}
	e.Logf("!! VIOLATION oracle=%s class=%s step=%d: %s", oracle, class, e.step, e.viol.Msg)
}

// Failed reports whether a violation has been recorded.
func (e *Env) Failed() bool { return e.viol != nil }

// Result is what one run produced.
type Result struct {
	Violation   *Violation      `json:"violation,omitempty"`
	Trace       []string        `json:"trace"`
	Digest      string          `json:"digest"`
	Fingerprint uint64          `json:"fingerprint"`
	Faults      map[string]int  `json:"faults"`
	Probes      map[string]int  `json:"probes"`
	Flags       map[string]bool `json:"flags"`
	SimTimeNs   int64           `json:"sim_time_ns"`
	Nontrivial  bool            `json:"nontrivial"`
	Tape        []uint32        `json:"tape"`
	Steps       int             `json:"steps"`
}

func (e *Env) result() *Result {
	h := sha256.New()
	for _, l := range e.trace {
		if strings.HasPrefix(l, "!! VIOLATION ") {
			// the message may quote engine output whose order the engine does not
			// fix (map iteration); oracle, class and step identify the violation
			if i := strings.Index(l, ": "); i > 0 {
				l = l[:i]
			}
		}
		h.Write([]byte(l))
		h.Write([]byte{'\n'})
	}
	fp := fnv.New64a()
	for _, k := range e.kinds {
		fp.Write([]byte(k))
		fp.Write([]byte{0})
	}
	return &Result{
		Violation: e.viol, Trace: e.trace, Digest: hex.EncodeToString(h.Sum(nil)[:12]),
		Fingerprint: fp.Sum64(), Faults: e.faults, Probes: e.probes, Flags: e.flags,
		SimTimeNs: e.SimTimeNs, Nontrivial: e.nontrivial, Tape: e.T.Recorded(), Steps: e.step,
	}
}

// CheckFn is one simulated run of a check.
type CheckFn func(env *Env)

// RunOnce executes one run; panics on the calling goroutine become a
// violation of class "panic" (every claimed property implies "returns a
// result or an error").
func RunOnce(fn CheckFn, tape *Tape, tier string, opts map[string]string) (res *Result) {
	env := NewEnv(tape, tier)
	env.Opts = opts
	func() {
		defer func() {
			if r := recover(); r != nil {
				if hp, ok := r.(HarnessPanic); ok {
					panic(hp)
				}
				st := string(debug.Stack())
				env.Fail("no-panic", "panic:"+PanicSite(st), "panic in simulated run: %v\n%s", r, trimStack(st))
			}
		}()
		fn(env)
	}()
	return env.result()
}

// HarnessPanic is re-panicked by RunOnce: it marks trouble in the harness
// itself (exit 2), never a violation.
type HarnessPanic struct{ Msg string }

func (h HarnessPanic) Error() string { return "harness: " + h.Msg }

// Harnessf aborts the worker with status 2.
func Harnessf(format string, args ...any) {
	panic(HarnessPanic{fmt.Sprintf(format, args...)})
}

// trimStack keeps the function names of a stack trace only: addresses,
// argument words and goroutine numbers differ between executions and must not
// reach the trace (the trace digest is what the determinism self-check compares).
func trimStack(st string) string {
	var out []string
	for _, l := range strings.Split(st, "\n") {
		if l == "" || strings.HasPrefix(l, "\t") || strings.HasPrefix(l, "goroutine ") {
			continue
		}
		if i := strings.LastIndex(l, "("); i > 0 {
			l = l[:i]
		}
		out = append(out, l)
		if len(out) >= 30 {
			break
		}
	}
	return strings.Join(out, "\n")
}

// panicSite returns the first go-mysql-server frame below the panic, as a
// stable identifier (function name only, no line numbers or addresses).
func PanicSite(st string) string {
	lines := strings.Split(st, "\n")
	seenPanic := false
	for _, l := range lines {
		if strings.HasPrefix(l, "panic(") {
			seenPanic = true
			continue
		}
		if !seenPanic || strings.HasPrefix(l, "\t") {
			continue
		}
		if strings.Contains(l, "github.com/dolthub/go-mysql-server/") {
			if i := strings.LastIndex(l, "("); i > 0 {
				l = l[:i]
			}
			return strings.TrimPrefix(l, "github.com/dolthub/go-mysql-server/")
		}
	}
	return "unknown"
}

// SortedKeys returns map keys sorted.
func SortedKeys[V any](m map[string]V) []string {
	out := make([]string, 0, len(m))
	for k := range m {
		out = append(out, k)
	}
	sort.Strings(out)
	return out
}

package kernel

import (
	"encoding/json"
	"fmt"
	"os"
	"sort"
	"strconv"
	"strings"
	"testing"
	"time"
)

// Finding is one entry of /verif/known_findings.json.
type Finding struct {
	Property string `json:"property"`
	Check    string `json:"check"` // sub-check id (e.g. C38a)
	ID       string `json:"id"`
	Status   string `json:"status"` // "known" or "fixed"
	Class    string `json:"class"`  // violation class; trailing * = prefix match
	What     string `json:"what"`
	Commit   string `json:"commit,omitempty"`
}

// FindingsFile is the committed known-findings file.
type FindingsFile struct {
	Findings []Finding `json:"findings"`
}

func loadFindings(path, property string) []Finding {
	var out []Finding
	if path == "" {
		return out
	}
	b, err := os.ReadFile(path)
	if err != nil {
		return out
	}
	var ff FindingsFile
	if err := json.Unmarshal(b, &ff); err != nil {
		Harnessf("known findings file %s: %v", path, err)
	}
	for _, f := range ff.Findings {
		if f.Check == property && f.Status == "known" {
			out = append(out, f)
		}
	}
	return out
}

func matchFinding(fs []Finding, v *Violation) *Finding {
	for i := range fs {
		c := fs[i].Class
		if strings.HasSuffix(c, "*") {
			if strings.HasPrefix(v.Class, strings.TrimSuffix(c, "*")) {
				return &fs[i]
			}
		} else if c == v.Class {
			return &fs[i]
		}
	}
	return nil
}

// Sample is a written-out run for the evidence file.
type Sample struct {
	Run   uint64   `json:"run"`
	Trace []string `json:"trace"`
}

// FindingHit counts matches of a known finding.
type FindingHit struct {
	Count int    `json:"count"`
	Run   uint64 `json:"example_run"`
	Msg   string `json:"example"`
	What  string `json:"what"`
}

// ViolationRecord is a violating run.
type ViolationRecord struct {
	Run    uint64  `json:"run"`
	Result *Result `json:"result"`
}

// Summary is what a batch worker reports.
type Summary struct {
	Worker       int                    `json:"worker"`
	Runs         int                    `json:"runs"`
	Nontrivial   int                    `json:"nontrivial"`
	Fingerprints []uint64               `json:"fingerprints"`
	Faults       map[string]int         `json:"faults"`
	Probes       map[string]int         `json:"probes"`
	Flags        map[string]int         `json:"flags"`
	SimTimeNs    int64                  `json:"sim_time_ns"`
	Steps        int64                  `json:"steps"`
	Samples      []Sample               `json:"samples"`
	Reexec       int                    `json:"reexecuted"`
	Mismatch     int                    `json:"mismatches"`
	MismatchInfo string                 `json:"mismatch_info,omitempty"`
	Findings     map[string]*FindingHit `json:"findings"`
	Violation    *ViolationRecord       `json:"violation,omitempty"`
	WallS        float64                `json:"wall_s"`
	Capped       bool                   `json:"capped_by_wallclock"`
}

// ReplayFile is the on-disk replay format.
type ReplayFile struct {
	Property    string            `json:"property"`
	Seed        uint64            `json:"seed"`
	Run         uint64            `json:"run"`
	Tier        string            `json:"tier"`
	Opts        map[string]string `json:"opts,omitempty"`
	Tape        []uint32          `json:"tape"` // null => regenerate from (seed, property, run)
	Minimised   bool              `json:"minimised"`
	ShrinkTries int               `json:"shrink_tries"`
	OrigTapeLen int               `json:"original_tape_len"`
	Violation   *Violation        `json:"violation"`
	Trace       []string          `json:"trace"`
	Note        string            `json:"note,omitempty"`
}

func envU64(name string, def uint64) uint64 {
	s := os.Getenv(name)
	if s == "" {
		return def
	}
	v, err := strconv.ParseUint(s, 10, 64)
	if err != nil {
		Harnessf("bad %s=%q", name, s)
	}
	return v
}

func parseOpts(s string) map[string]string {
	m := map[string]string{}
	for _, kv := range strings.Split(s, ",") {
		if kv == "" {
			continue
		}
		k, v, _ := strings.Cut(kv, "=")
		m[k] = v
	}
	return m
}

// WorkerMain is the body of TestWorker in every world package. Exit codes:
// 0 batch finished clean (or only known findings), 3 violation found (record
// written), 4 harness trouble; anything else is a process death.
func WorkerMain(t *testing.T, checks map[string]CheckFn) {
	id := os.Getenv("VERIF_CHECK")
	if id == "" {
		t.Skip("not run by the driver")
	}
	defer func() {
		if r := recover(); r != nil {
			if hp, ok := r.(HarnessPanic); ok {
				fmt.Fprintln(os.Stderr, "HARNESS:", hp.Msg)
				os.Exit(4)
			}
			panic(r)
		}
	}()
	fn, ok := checks[id]
	if !ok {
		Harnessf("unknown check %q in this world", id)
	}
	mode := os.Getenv("VERIF_MODE")
	tier := os.Getenv("VERIF_TIER")
	if tier == "" {
		tier = "quick"
	}
	opts := parseOpts(os.Getenv("VERIF_OPTS"))
	findings := loadFindings(os.Getenv("VERIF_FINDINGS"), id)
	if len(findings) > 0 {
		ids := []string{}
		for _, f := range findings {
			ids = append(ids, f.ID)
		}
		opts["known"] = strings.Join(ids, "+")
	}
	out := os.Getenv("VERIF_OUT")
	switch mode {
	case "batch":
		workerBatch(fn, id, tier, opts, findings, out)
	case "shrink":
		workerShrink(fn, id, tier, opts, out)
	case "replay":
		workerReplay(fn, id, opts, findings)
	default:
		Harnessf("bad VERIF_MODE %q", mode)
	}
}

func writeJSON(path string, v any) {
	b, err := json.MarshalIndent(v, "", " ")
	if err != nil {
		Harnessf("marshal: %v", err)
	}
	if err := os.WriteFile(path, b, 0o644); err != nil {
		Harnessf("write %s: %v", path, err)
	}
}

// NoSelfCheck names checks whose runs are not re-executed for the determinism
// self-check: those that hand the members of an overlap group to real threads
// under the race detector (C36b), which reports a racing pair once per process.
var NoSelfCheck = map[string]bool{}

func workerBatch(fn CheckFn, id, tier string, opts map[string]string, findings []Finding, out string) {
	seed := envU64("VERIF_SEED", 1)
	w := envU64("VERIF_WORKER", 0)
	nw := envU64("VERIF_WORKERS", 1)
	total := envU64("VERIF_RUNS", 100)
	capS := envU64("VERIF_CAP_S", 3600)
	progPath := os.Getenv("VERIF_PROGRESS")
	var prog *os.File
	if progPath != "" {
		var err error
		prog, err = os.Create(progPath)
		if err != nil {
			Harnessf("progress file: %v", err)
		}
		defer prog.Close()
	}
	start := time.Now()
	sum := &Summary{Worker: int(w), Faults: map[string]int{}, Probes: map[string]int{}, Flags: map[string]int{}, Findings: map[string]*FindingHit{}}
	fps := map[uint64]struct{}{}
	finish := func(code int) {
		for f := range fps {
			sum.Fingerprints = append(sum.Fingerprints, f)
		}
		sort.Slice(sum.Fingerprints, func(i, j int) bool { return sum.Fingerprints[i] < sum.Fingerprints[j] })
		sum.WallS = time.Since(start).Seconds()
		writeJSON(out, sum)
		os.Exit(code)
	}
	var buf [24]byte
	var digests *os.File
	if dp := os.Getenv("VERIF_DIGESTS"); dp != "" {
		digests, _ = os.Create(dp)
		defer digests.Close()
	}
	for run := w; run < total; run += nw {
		if time.Since(start) > time.Duration(capS)*time.Second {
			sum.Capped = true
			break
		}
		if prog != nil {
			s := fmt.Sprintf("%020d\n", run)
			copy(buf[:], s)
			prog.WriteAt(buf[:21], 0)
		}
		res := RunOnce(fn, NewGenTape(seed, id, run), tier, opts)
		sum.Runs++
		if digests != nil {
			fmt.Fprintf(digests, "%d %s %d\n", run, res.Digest, len(res.Tape))
		}
		sum.SimTimeNs += res.SimTimeNs
		sum.Steps += int64(res.Steps)
		for k, v := range res.Faults {
			sum.Faults[k] += v
		}
		for k, v := range res.Probes {
			sum.Probes[k] += v
		}
		for k, v := range res.Flags {
			if v {
				sum.Flags[k]++
			}
		}
		if res.Nontrivial {
			sum.Nontrivial++
			fps[res.Fingerprint] = struct{}{}
			if len(sum.Samples) < 2 {
				tr := res.Trace
				if len(tr) > 120 {
					tr = append(append([]string{}, tr[:120]...), fmt.Sprintf("... (%d more lines)", len(res.Trace)-120))
				}
				sum.Samples = append(sum.Samples, Sample{Run: run, Trace: tr})
			}
		}
		// determinism self-check: re-execute 2% of runs from the recorded tape
		if (run%50 == 7 || res.Violation != nil) && !NoSelfCheck[id] {
			r2 := RunOnce(fn, NewReplayTape(res.Tape), tier, opts)
			sum.Reexec++
			if r2.Digest != res.Digest && res.Violation != nil && r2.Violation != nil {
				// both executions of the tape violate the property, in different ways: the code
				// under test is itself nondeterministic here (e.g. ranges over a Go map). That is
				// reported as the violation it is, not as harness trouble.
				sum.Flags["violation-under-nondeterminism-of-the-code-under-test"]++
			} else if r2.Digest != res.Digest {
				sum.Mismatch++
				sum.MismatchInfo = fmt.Sprintf("run %d: digest %s vs %s\n%s", run, res.Digest, r2.Digest, firstDiff(res.Trace, r2.Trace))
				writeJSON(out+".mismatch.json", map[string]any{"run": run, "a": res, "b": r2})
				finish(4)
			}
		}
		if res.Violation != nil {
			if f := matchFinding(findings, res.Violation); f != nil {
				h := sum.Findings[f.ID]
				if h == nil {
					h = &FindingHit{Run: run, Msg: res.Violation.Msg, What: f.What}
					sum.Findings[f.ID] = h
				}
				h.Count++
				continue
			}
			sum.Violation = &ViolationRecord{Run: run, Result: res}
			finish(3)
		}
	}
	finish(0)
}

func firstDiff(a, b []string) string {
	for i := 0; i < len(a) && i < len(b); i++ {
		if a[i] != b[i] {
			return fmt.Sprintf("line %d:\n  A: %s\n  B: %s", i, a[i], b[i])
		}
	}
	return fmt.Sprintf("lengths %d vs %d", len(a), len(b))
}

// workerShrink: VERIF_IN is a ViolationRecord JSON; writes a ReplayFile to out.
func workerShrink(fn CheckFn, id, tier string, opts map[string]string, out string) {
	var rec ViolationRecord
	b, err := os.ReadFile(os.Getenv("VERIF_IN"))
	if err != nil {
		Harnessf("read shrink input: %v", err)
	}
	if err := json.Unmarshal(b, &rec); err != nil {
		Harnessf("parse shrink input: %v", err)
	}
	seed := envU64("VERIF_SEED", 1)
	budget := time.Duration(envU64("VERIF_SHRINK_S", 60)) * time.Second
	best, tries := Shrink(fn, tier, opts, rec.Result, budget, 5000)
	delete(opts, "known")
	rf := &ReplayFile{Property: id, Seed: seed, Run: rec.Run, Tier: tier, Opts: opts, Tape: best.Tape, Minimised: true,
		ShrinkTries: tries, OrigTapeLen: len(rec.Result.Tape), Violation: best.Violation, Trace: best.Trace}
	if rf.Tape == nil {
		rf.Tape = []uint32{}
	}
	writeJSON(out, rf)
	os.Exit(0)
}

// workerReplay: VERIF_IN is a ReplayFile. Exit 1 if the recorded violation
// reproduces (same oracle, class and step), 0 if the run is clean, 2 if it
// fails differently.
func workerReplay(fn CheckFn, id string, opts map[string]string, findings []Finding) {
	var rf ReplayFile
	b, err := os.ReadFile(os.Getenv("VERIF_IN"))
	if err != nil {
		Harnessf("read replay: %v", err)
	}
	if err := json.Unmarshal(b, &rf); err != nil {
		Harnessf("parse replay: %v", err)
	}
	for k, v := range rf.Opts {
		if _, ok := opts[k]; !ok {
			opts[k] = v
		}
	}
	var tape *Tape
	if rf.Tape == nil {
		tape = NewGenTape(rf.Seed, id, rf.Run)
	} else {
		tape = NewReplayTape(rf.Tape)
	}
	res := RunOnce(fn, tape, rf.Tier, opts)
	for _, l := range res.Trace {
		fmt.Println("  " + l)
	}
	if res.Violation == nil {
		fmt.Println("REPLAY: no violation")
		os.Exit(0)
	}
	fmt.Printf("REPLAY: oracle=%s class=%s step=%d\n", res.Violation.Oracle, res.Violation.Class, res.Violation.Step)
	if rf.Violation != nil && (res.Violation.Oracle != rf.Violation.Oracle || res.Violation.Class != rf.Violation.Class || res.Violation.Step != rf.Violation.Step) {
		fmt.Printf("REPLAY: differs from recorded oracle=%s class=%s step=%d\n", rf.Violation.Oracle, rf.Violation.Class, rf.Violation.Step)
		os.Exit(4)
	}
	os.Exit(1)
}

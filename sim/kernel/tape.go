// Package kernel is the simulator core: the choice tape, the per-run
// environment (trace, probes, fault counters, violation), the shrinker, the
// cooperative scheduler used inside synctest bubbles and the worker protocol
// spoken with the driver (cmd/verif).
package kernel

import (
	"encoding/binary"
	"hash/fnv"
	"math/rand/v2"
)

// Tape is the single source of every decision in a run. In generation mode
// values come from a PCG seeded from (seed, check id, run index) and are
// recorded; in replay mode recorded values are played back (exhausted tape
// => 0, out-of-range => value mod n). 0 is always the "simplest" choice so
// that the shrinker can zero and delete spans.
type Tape struct {
	rng    *rand.Rand
	replay []uint32
	pos    int
	isRep  bool
	rec    []uint32
}

// SeedFor derives the two PCG words for one run.
func SeedFor(seed uint64, check string, run uint64) (uint64, uint64) {
	h := fnv.New64a()
	var b [8]byte
	binary.LittleEndian.PutUint64(b[:], seed)
	h.Write(b[:])
	h.Write([]byte(check))
	binary.LittleEndian.PutUint64(b[:], run)
	h.Write(b[:])
	a := h.Sum64()
	h.Write([]byte("second"))
	return a, h.Sum64()
}

// NewGenTape returns a generating tape.
func NewGenTape(seed uint64, check string, run uint64) *Tape {
	a, b := SeedFor(seed, check, run)
	return &Tape{rng: rand.New(rand.NewPCG(a, b))}
}

// NewReplayTape returns a tape replaying vals.
func NewReplayTape(vals []uint32) *Tape {
	return &Tape{replay: vals, isRep: true}
}

// Draw returns a value in [0,n). n<=1 returns 0 without consuming.
func (t *Tape) Draw(n int) int {
	if n <= 1 {
		return 0
	}
	var v uint32
	if t.isRep {
		if t.pos < len(t.replay) {
			v = t.replay[t.pos] % uint32(n)
		}
		t.pos++
	} else {
		v = uint32(t.rng.IntN(n))
	}
	t.rec = append(t.rec, v)
	return int(v)
}

// Bool is true with probability num/den; false is the simple choice.
func (t *Tape) Bool(num, den int) bool {
	return t.Draw(den) >= den-num
}

// Range draws from [lo,hi] inclusive, lo being simplest.
func (t *Tape) Range(lo, hi int) int {
	if hi <= lo {
		return lo
	}
	return lo + t.Draw(hi-lo+1)
}

// Pick draws an index weighted by w (w[0] should be the simplest option).
func (t *Tape) Pick(w ...int) int {
	tot := 0
	for _, x := range w {
		tot += x
	}
	if tot <= 0 {
		return 0
	}
	v := t.Draw(tot)
	for i, x := range w {
		if v < x {
			return i
		}
		v -= x
	}
	return len(w) - 1
}

// Recorded returns the values drawn so far.
func (t *Tape) Recorded() []uint32 {
	out := make([]uint32, len(t.rec))
	copy(out, t.rec)
	return out
}

// Perm applies a tape-chosen permutation through swap (Fisher-Yates).
func (t *Tape) Perm(n int, swap func(i, j int)) {
	for i := 0; i < n-1; i++ {
		j := i + t.Draw(n-i)
		if j != i {
			swap(i, j)
		}
	}
}

package kernel

import (
	"os"
	"regexp"
	"sort"
	"strings"
	"sync"
	"syscall"
)

// Race detector output of a worker built with -race: stderr is pointed at an
// unlinked temporary file and scanned after every concurrent phase.

var (
	raceLogOnce sync.Once
	raceLogFile *os.File
	raceLogPos  int64
)

// RaceLogInit points the process's stderr (where the race detector writes) at a file.
func RaceLogInit() {
	raceLogOnce.Do(func() {
		f, err := os.CreateTemp("", "verif-race-*.log")
		if err != nil {
			Harnessf("race log: %v", err)
		}
		if err := syscall.Dup2(int(f.Fd()), 2); err != nil {
			Harnessf("race log: dup2: %v", err)
		}
		raceLogFile = f
		os.Remove(f.Name()) // stays open; nothing is left behind
	})
}

// RaceLogNew returns what was written to stderr since the last call when it holds a race report.
func RaceLogNew() string {
	if raceLogFile == nil {
		return ""
	}
	st, err := raceLogFile.Stat()
	if err != nil || st.Size() <= raceLogPos {
		return ""
	}
	buf := make([]byte, st.Size()-raceLogPos)
	raceLogFile.ReadAt(buf, raceLogPos)
	raceLogPos = st.Size()
	out := string(buf)
	if strings.Contains(out, "WARNING: DATA RACE") || strings.Contains(out, "fatal error: concurrent map") {
		return out
	}
	return ""
}

var raceFrame = regexp.MustCompile(`(?m)^  (github\.com/dolthub/go-mysql-server[^\s(]*(?:\([^)]*\))?[^\s(]*)\(`)

// RaceSites names the top engine function of the two accesses of the first report.
func RaceSites(rep string) (string, string) {
	var sites []string
	for _, block := range strings.Split(rep, "\n\n") {
		if !(strings.Contains(block, "Write at") || strings.Contains(block, "Read at") || strings.Contains(block, "Previous write at") || strings.Contains(block, "Previous read at")) {
			continue
		}
		if m := raceFrame.FindStringSubmatch(block); m != nil {
			sites = append(sites, strings.TrimPrefix(m[1], "github.com/dolthub/go-mysql-server/"))
		} else {
			sites = append(sites, "?")
		}
		if len(sites) == 2 {
			break
		}
	}
	for len(sites) < 2 {
		sites = append(sites, "?")
	}
	sort.Strings(sites)
	return sites[0], sites[1]
}

// TrimRaceReport drops the file:line lines (addresses, offsets) of a report.
func TrimRaceReport(rep string) string {
	var out []string
	for _, l := range strings.Split(rep, "\n") {
		if strings.HasPrefix(l, "      ") || strings.TrimSpace(l) == "" {
			continue
		}
		out = append(out, l)
		if len(out) > 40 {
			break
		}
	}
	return strings.Join(out, "\n")
}

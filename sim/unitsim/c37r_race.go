package unitsim

import (
	"context"
	"fmt"
	"runtime/debug"
	"sync"

	sqle "github.com/dolthub/go-mysql-server"
	"github.com/dolthub/go-mysql-server/sql"
	"github.com/dolthub/go-mysql-server/sql/variables"

	"verif/sim/kernel"
)

// C37r: the process list under real goroutines in a race-detector build. The
// deterministic checks C37a / C37b interleave at call boundaries and at the
// handler's yield points; they rest on "every ProcessList method is one
// critical section". This sub-check is the guard of that assumption: 2-4
// connection goroutines run query cycles (BeginQuery, progress updates,
// EndQuery, the late second EndQuery) while killer goroutines call Kill and
// observer goroutines call Processes, all at once on GOMAXPROCS=4. The
// schedule is the Go runtime's, not the simulator's, so only facts that hold
// under every schedule are judged: a data race report, a panic, and the state
// after all goroutines have been joined (every connection idle, a query begun
// after the last Kill returned is not cancelled, the counters are back).
// The tape decides the shape (who does how many of what); the determinism
// self-check is off for it.

func checkC37r(env *kernel.Env) {
	T := env.T
	kernel.RaceLogInit()
	variables.InitStatusVariables()
	pl := sqle.NewProcessList()
	nconn := T.Range(2, 4)
	nkill := T.Range(1, 2)
	nobs := T.Range(0, 1)
	cycles := T.Range(20, 200)
	kills := T.Range(20, 300)
	lateEnd := T.Bool(1, 2)
	progress := T.Bool(1, 2)
	env.Nontrivial()
	env.Logf("cfg conns=%d killers=%d observers=%d cycles=%d kills=%d late-endquery=%v progress=%v", nconn, nkill, nobs, cycles, kills, lateEnd, progress)
	run0 := statusInt("Threads_running")
	type conn struct {
		id   uint32
		sess *sql.BaseSession
	}
	var conns []*conn
	for i := 0; i < nconn; i++ {
		c := &conn{id: uint32(i + 1)}
		host := fmt.Sprintf("10.0.0.%d:4000", i+1)
		pl.AddConnection(c.id, host)
		c.sess = sql.NewBaseSessionWithClientServer("srv:3306", sql.Client{Address: host, User: "u"}, c.id)
		pl.ConnectionReady(c.sess)
		conns = append(conns, c)
	}
	var wg sync.WaitGroup
	var mu sync.Mutex
	var panics []string
	guard := func(what string, f func()) {
		defer wg.Done()
		defer func() {
			if r := recover(); r != nil {
				mu.Lock()
				panics = append(panics, fmt.Sprintf("%s: %v at %s", what, r, kernel.PanicSite(string(debug.Stack()))))
				mu.Unlock()
			}
		}()
		f()
	}
	var pidMu sync.Mutex
	nextPid := uint64(0)
	newPid := func() uint64 { pidMu.Lock(); defer pidMu.Unlock(); nextPid++; return nextPid }
	var beginErr error
	for _, c := range conns {
		c := c
		wg.Add(1)
		go guard(fmt.Sprintf("connection %d", c.id), func() {
			var last *sql.Context
			for i := 0; i < cycles; i++ {
				pid := newPid()
				in := sql.NewContext(context.Background(), sql.WithPid(pid), sql.WithSession(c.sess))
				out, err := pl.BeginQuery(in, "SELECT 1")
				if err != nil {
					mu.Lock()
					beginErr = fmt.Errorf("connection %d pid %d: %w", c.id, pid, err)
					mu.Unlock()
					return
				}
				if progress {
					pl.AddTableProgress(pid, "t", 10)
					pl.UpdateTableProgress(pid, "t", 1)
				}
				if lateEnd && last != nil {
					pl.EndQuery(last) // the handler's deferred second call for the previous query
				}
				pl.EndQuery(out)
				last = out
			}
		})
	}
	for k := 0; k < nkill; k++ {
		k := k
		wg.Add(1)
		go guard("killer", func() {
			for i := 0; i < kills; i++ {
				pl.Kill(uint32((i+k)%(nconn+1)) + 1)
			}
		})
	}
	for o := 0; o < nobs; o++ {
		wg.Add(1)
		go guard("observer", func() {
			for i := 0; i < kills; i++ {
				for _, p := range pl.Processes() {
					_ = p.Query
				}
			}
		})
	}
	wg.Wait()
	env.Kind(fmt.Sprintf("race-phase:%d:%d:%d", nconn, nkill, nobs))
	env.Fault("kill")
	if rep := kernel.RaceLogNew(); rep != "" {
		a, b := kernel.RaceSites(rep)
		env.Fail("no-data-race", "data-race:"+a+"<->"+b, "the race detector reported a data race while %d connections ran query cycles, %d goroutines issued KILL and %d read the process list:\n%s", nconn, nkill, nobs, kernel.TrimRaceReport(rep))
		return
	}
	if len(panics) > 0 {
		env.Fail("no-panic", "panic-under-concurrency", "%s", panics[0])
		return
	}
	if beginErr != nil {
		env.Fail("begin-query-accepted", "begin-query-rejected", "BeginQuery failed under concurrency: %v", beginErr)
		return
	}
	// quiescent state: everything idle, counters back, a fresh query is not cancelled by the past kills
	for _, p := range pl.Processes() {
		if p.Command != sql.ProcessCommandSleep || p.QueryPid != 0 {
			env.Fail("processlist-equals-model", "wrong-process-entry", "after all goroutines finished connection %d shows command=%q pid=%d", p.Connection, p.Command, p.QueryPid)
			return
		}
	}
	if tr := statusInt("Threads_running") - run0; tr != 0 {
		env.Fail("threads-running", "threads-running", "after all goroutines finished Threads_running is off by %d", tr)
		return
	}
	for _, c := range conns {
		in := sql.NewContext(context.Background(), sql.WithPid(newPid()), sql.WithSession(c.sess))
		out, err := pl.BeginQuery(in, "SELECT 2")
		if err != nil {
			env.Fail("begin-query-accepted", "begin-query-rejected", "BeginQuery on idle connection %d failed: %v", c.id, err)
			return
		}
		if out.Err() != nil {
			env.Fail("cancel-exactly-target", "untargeted-context-cancelled", "a query begun on connection %d after every Kill had returned is already cancelled", c.id)
			return
		}
		pl.EndQuery(out)
	}
}

package unitsim

import (
	"context"
	"fmt"
	"testing"
	"testing/synctest"
	"time"

	"github.com/anishathalye/porcupine"
	"github.com/dolthub/go-mysql-server/sql"
	"github.com/dolthub/go-mysql-server/verifhook"

	"verif/sim/kernel"
)

// ---- sequential reference model, written from the property's sentences ----
// name -> (holder, count); "never requested" and "free" are one state.

const maxNames = 3

type lkCell struct{ holder, count int8 }
type lkState [maxNames]lkCell

type lkIn struct {
	op      string // lock, try, unlock, relall, state, relone (decomposed release-all part)
	sess    int8
	name    int8
	timeout time.Duration
}
type lkOut struct {
	ok     bool // lock/try acquired; unlock succeeded
	n      int  // relall count
	holder int8 // state: 0 free
	any    bool // output unconstrained (decomposed parts)
}

func lkStep(st lkState, in lkIn, out lkOut) (bool, lkState) {
	switch in.op {
	case "lock", "try":
		c := st[in.name]
		if c.holder == 0 || c.holder == in.sess {
			if !out.ok {
				return false, st
			}
			st[in.name] = lkCell{in.sess, c.count + 1}
			return true, st
		}
		return !out.ok, st
	case "unlock":
		c := st[in.name]
		if c.holder == in.sess {
			if !out.ok {
				return false, st
			}
			if c.count > 1 {
				st[in.name] = lkCell{in.sess, c.count - 1}
			} else {
				st[in.name] = lkCell{}
			}
			return true, st
		}
		return !out.ok, st
	case "relall":
		n := 0
		for i := range st {
			if st[i].holder == in.sess {
				st[i] = lkCell{}
				n++
			}
		}
		return n == out.n, st
	case "relone":
		if st[in.name].holder == in.sess {
			st[in.name] = lkCell{}
		}
		return true, st
	case "state":
		return st[in.name].holder == out.holder, st
	}
	return false, st
}

var lkModel = porcupine.Model{
	Init: func() interface{} { return lkState{} },
	Step: func(state, input, output interface{}) (bool, interface{}) {
		ok, ns := lkStep(state.(lkState), input.(lkIn), output.(lkOut))
		return ok, ns
	},
	Equal: func(a, b interface{}) bool { return a.(lkState) == b.(lkState) },
	DescribeOperation: func(input, output interface{}) string {
		return fmt.Sprintf("%+v -> %+v", input, output)
	},
}

type lkPending struct {
	in       lkIn
	out      lkOut
	call     int64
	callTime time.Duration
	done     bool
	lastLoad int64 // event seq of the last resume at lock.load (a poll attempt)
}

// C38a: LockSubsystem under scheduler-chosen interleavings at every atomic
// load / CAS, with the simulated clock owning timeouts.
func checkC38a(t *testing.T) kernel.CheckFn {
	return func(env *kernel.Env) {
		// all draws that shape the run happen before the bubble is entered too,
		// but scheduling draws necessarily happen inside
		synctest.Test(t, func(t *testing.T) { runC38a(env) })
	}
}

func runC38a(env *kernel.Env) {
	T := env.T
	nsess := T.Range(2, 4)
	nnames := T.Range(1, maxNames)
	maxOps := T.Range(3, 7) // per session
	s := kernel.NewSched(env)
	// lock.load is always armed: it is the entry of every poll attempt, and two
	// waiters whose 100µs sleeps end at the same simulated instant would
	// otherwise race for the lock in an order only the Go runtime decides (this
	// was caught by the determinism self-check at a rate of 1 in 10^5 runs).
	s.Arm("lock.load")
	armedAny := true
	for _, site := range []string{"lock.cas", "lock.create"} {
		if T.Bool(3, 4) {
			s.Arm(site)
		}
	}
	permute := T.Bool(1, 2)
	verifhook.YieldFn = s.Yield
	verifhook.OrderFn = func(n int, swap func(i, j int)) {
		if permute {
			T.Perm(n, swap)
		}
	}
	defer func() { verifhook.YieldFn = nil; verifhook.OrderFn = nil }()
	env.Logf("cfg sessions=%d names=%d maxops=%d armed=%v permute=%v", nsess, nnames, maxOps, s.ArmedSites(), permute)

	ls := sql.NewLockSubsystem()
	names := []string{"a", "b", "c"}[:nnames]
	type sessT struct {
		id   int8
		ctx  *sql.Context
		task *kernel.Task
		left int
		cur  *lkPending
	}
	var sess []*sessT
	for i := 0; i < nsess; i++ {
		bs := sql.NewBaseSession()
		bs.SetConnectionId(uint32(i + 1))
		sess = append(sess, &sessT{id: int8(i + 1), ctx: sql.NewContext(context.Background(), sql.WithSession(bs)),
			task: s.Spawn(fmt.Sprintf("s%d", i+1)), left: T.Range(1, maxOps)})
	}
	start := time.Now()
	now := func() time.Duration { return time.Since(start) }

	var hist []porcupine.Operation
	var decomp []porcupine.Operation // history with release-all decomposed
	// harness-side knowledge of ownership (from completed operations only)
	owned := make([][maxNames]int, nsess+1)
	// lastOtherHold[name][sess]: last event seq at which another session possibly held name
	var lastOtherHold [maxNames][]int64
	for i := range lastOtherHold {
		lastOtherHold[i] = make([]int64, nsess+1)
	}
	touches := func(p *lkPending, name int) bool {
		return p != nil && !p.done && (p.in.op == "relall" || int(p.in.name) == name) && p.in.op != "state"
	}
	updateHolds := func() {
		seq := int64(env.Step())
		for n := 0; n < nnames; n++ {
			for _, me := range sess {
				for _, o := range sess {
					if o == me {
						continue
					}
					if owned[o.id][n] > 0 || touches(o.cur, n) {
						lastOtherHold[n][me.id] = seq
						break
					}
				}
			}
		}
	}
	invariant := func() {
		for n := 0; n < nnames; n++ {
			holders := 0
			var who *sessT
			uncertain := false
			for _, x := range sess {
				if touches(x.cur, n) {
					uncertain = true
				}
				releasing := touches(x.cur, n) && (x.cur.in.op == "unlock" || x.cur.in.op == "relall")
				if owned[x.id][n] > 0 && !releasing {
					holders++
					who = x
				}
			}
			if holders > 1 {
				env.Fail("mutual-exclusion", "two-holders", "lock %s held by more than one session at once (harness-side ownership %v)", names[n], owned)
				return
			}
			if uncertain {
				continue
			}
			st, owner := ls.GetLockState(names[n])
			if holders == 1 {
				if st != sql.LockInUse || owner != uint32(who.id) {
					env.Fail("state-reports-holder", "wrong-holder", "lock %s: session %d holds it (count %d) but state=%v owner=%d", names[n], who.id, owned[who.id][n], st, owner)
					return
				}
			} else if st == sql.LockInUse {
				env.Fail("state-reports-holder", "phantom-holder", "lock %s: nobody holds it but state reports owner=%d", names[n], owner)
				return
			}
		}
	}
	complete := func(x *sessT) {
		p := x.cur
		env.Kind("ret:" + p.in.op)
		ret := int64(env.Step())
		env.Logf("  ret s%d %s(%s) -> %s", x.id, p.in.op, nameOf(names, p.in), outStr(p.in, p.out))
		op := porcupine.Operation{ClientId: int(x.id), Input: p.in, Call: p.call, Output: p.out, Return: ret}
		hist = append(hist, op)
		if p.in.op == "relall" {
			for n := 0; n < nnames; n++ {
				decomp = append(decomp, porcupine.Operation{ClientId: int(x.id)*10 + n, Input: lkIn{op: "relone", sess: x.id, name: int8(n)}, Call: p.call, Output: lkOut{any: true}, Return: ret})
			}
		} else {
			decomp = append(decomp, op)
		}
		switch p.in.op {
		case "lock", "try":
			if p.out.ok {
				owned[x.id][p.in.name]++
			} else if p.in.op == "lock" {
				// timeouts are owned by the simulated clock: never earlier than T
				if el := now() - p.callTime; p.in.timeout > 0 && el < p.in.timeout {
					env.Fail("timeout-not-early", "early-timeout", "Lock(%s,%v) by s%d gave up after %v", names[p.in.name], p.in.timeout, x.id, el)
				}
				if p.lastLoad > lastOtherHold[p.in.name][x.id]+1 {
					env.Fail("waiter-gets-free-lock", "waiter-missed-free-lock", "Lock(%s,%v) by s%d timed out although its last poll (event %d) ran after the lock had become free for it (event %d)",
						names[p.in.name], p.in.timeout, x.id, p.lastLoad, lastOtherHold[p.in.name][x.id])
				}
				env.Probe("lock-timed-out")
			}
		case "unlock":
			if p.out.ok {
				owned[x.id][p.in.name]--
				if owned[x.id][p.in.name] < 0 {
					env.Fail("release-by-non-holder", "unlock-succeeded-for-non-holder", "Unlock(%s) by s%d succeeded though it did not hold it", names[p.in.name], x.id)
				}
			}
		case "relall":
			exp := 0
			for n := 0; n < nnames; n++ {
				if owned[x.id][n] > 0 {
					exp++
				}
				owned[x.id][n] = 0
			}
			if exp != p.out.n {
				env.Fail("release-all-count", "release-all-count", "ReleaseAll by s%d reported %d, it held %d names", x.id, p.out.n, exp)
			}
		}
		p.done = true
		x.cur = nil
	}
	startOp := func(x *sessT) {
		in := lkIn{sess: x.id, name: int8(T.Draw(nnames))}
		switch T.Pick(4, 3, 4, 1, 2) {
		case 0:
			in.op = "try"
		case 1:
			in.op = "lock"
			in.timeout = []time.Duration{0, 300 * time.Microsecond, 5 * time.Millisecond, time.Second}[T.Draw(4)]
		case 2:
			in.op = "unlock"
		case 3:
			in.op = "relall"
			in.name = 0
		case 4:
			in.op = "state"
		}
		x.left--
		env.Kind("call:" + in.op)
		p := &lkPending{in: in, call: int64(env.Step()), callTime: now()}
		x.cur = p
		env.Logf("call s%d %s(%s,%v)", x.id, in.op, nameOf(names, in), in.timeout)
		ctx, name := x.ctx, names[in.name]
		x.task.Start(func() {
			switch in.op {
			case "try":
				ok, err := ls.TryLock(ctx, name)
				p.out = lkOut{ok: ok && err == nil}
			case "lock":
				err := ls.Lock(ctx, name, in.timeout)
				if err != nil && !sql.ErrLockTimeout.Is(err) {
					env.Fail("lock-error-kind", "lock-unexpected-error", "Lock returned %v", err)
				}
				p.out = lkOut{ok: err == nil}
			case "unlock":
				err := ls.Unlock(ctx, name)
				if err != nil && !sql.ErrLockNotOwned.Is(err) && !sql.ErrLockDoesNotExist.Is(err) {
					env.Fail("unlock-error-kind", "unlock-unexpected-error", "Unlock returned %v", err)
				}
				p.out = lkOut{ok: err == nil}
			case "relall":
				n, _ := ls.ReleaseAll(ctx)
				p.out = lkOut{n: n}
			case "state":
				st, owner := ls.GetLockState(name)
				if st == sql.LockInUse {
					p.out = lkOut{holder: int8(owner)}
				}
			}
		})
	}

	steps := 0
	for !env.Failed() {
		synctest.Wait()
		steps++
		if steps > 3000 {
			env.Fail("bounded-steps", "livelock", "run did not finish within 3000 scheduler steps")
			break
		}
		for _, x := range sess {
			if x.cur != nil && x.task.Idle() {
				complete(x)
			}
		}
		updateHolds()
		invariant()
		if env.Failed() {
			break
		}
		// enabled events in canonical order
		type ev struct {
			kind string
			x    *sessT
		}
		var evs []ev
		blocked := false
		for _, x := range sess {
			if site, ok := x.task.Parked(); ok {
				evs = append(evs, ev{"resume:" + site, x})
			} else if x.cur == nil && x.left > 0 {
				evs = append(evs, ev{"start", x})
			} else if x.cur != nil && x.task.Blocked() {
				blocked = true
			}
		}
		if blocked {
			evs = append(evs, ev{"advance", nil})
		}
		if len(evs) == 0 {
			break
		}
		e := evs[T.Draw(len(evs))]
		switch {
		case e.kind == "start":
			startOp(e.x)
		case e.kind == "advance":
			d := []time.Duration{100 * time.Microsecond, 50 * time.Microsecond, time.Millisecond, 10 * time.Millisecond, 2 * time.Second}[T.Draw(5)]
			env.Kind("advance")
			env.Logf("advance %v", d)
			s.Advance(d)
		default:
			env.Kind(e.kind)
			site, _ := e.x.task.Parked()
			if site == "lock.load" && e.x.cur != nil {
				e.x.cur.lastLoad = int64(env.Step())
			}
			if site == "lock.cas" {
				env.Probe("cas-window-opened")
			}
			env.Logf("resume s%d at %s", e.x.id, site)
			e.x.task.Resume()
		}
	}
	// closing phase: everybody releases everything, without interleaving;
	// afterwards every name must be free and acquirable by a newcomer.
	if !env.Failed() {
		s.DisarmAll()
		for _, x := range sess {
			x.left = 0
			in := lkIn{op: "relall", sess: x.id}
			env.Kind("call:relall")
			p := &lkPending{in: in, call: int64(env.Step())}
			x.cur = p
			x.task.Start(func() { n, _ := ls.ReleaseAll(x.ctx); p.out = lkOut{n: n} })
			synctest.Wait()
			complete(x)
		}
		for n := 0; n < nnames; n++ {
			if st, owner := ls.GetLockState(names[n]); st == sql.LockInUse {
				env.Fail("released-on-session-end", "lock-leaked", "lock %s still owned by %d after every session released all its locks", names[n], owner)
			}
		}
	}
	for _, x := range sess {
		if x.task.Idle() {
			x.task.Close()
		}
	}
	if env.Failed() {
		return
	}
	for k, v := range s.Hits() {
		env.ProbeN("yield:"+k, v)
	}
	if armedAny && len(s.Hits()) > 0 {
		env.Nontrivial()
	}
	env.SimTimeNs = int64(now())
	// linearizability of the recorded history
	res := porcupine.CheckOperationsTimeout(lkModel, hist, 30*time.Second)
	switch res {
	case porcupine.Ok:
	case porcupine.Unknown:
		env.Probe("porcupine-unknown")
	case porcupine.Illegal:
		// is release-all's non-atomicity the only thing wrong?
		if porcupine.CheckOperationsTimeout(lkModel, decomp, 30*time.Second) == porcupine.Ok {
			env.Fail("linearizable", "release-all-nonatomic", "history is not linearizable, but becomes so when each ReleaseAll is replaced by independent single-name releases inside its interval")
		} else {
			env.Fail("linearizable", "not-linearizable", "history of %d operations has no sequential explanation under the re-entrant lock model", len(hist))
		}
	}
}

func nameOf(names []string, in lkIn) string {
	if in.op == "relall" {
		return "*"
	}
	return names[in.name]
}

func outStr(in lkIn, o lkOut) string {
	switch in.op {
	case "relall":
		return fmt.Sprintf("%d released", o.n)
	case "state":
		if o.holder == 0 {
			return "free"
		}
		return fmt.Sprintf("held by s%d", o.holder)
	}
	if o.ok {
		return "ok"
	}
	return "fail"
}

package unitsim

import (
	"context"
	"fmt"
	"sort"

	sqle "github.com/dolthub/go-mysql-server"
	"github.com/dolthub/go-mysql-server/sql"
	"github.com/dolthub/go-mysql-server/sql/variables"

	"verif/sim/kernel"
)

// C37a: the process list under scheduler-chosen interleavings of connect /
// ready / begin / end / kill / disconnect events of several connections.
// Every ProcessList method is one critical section, so interleaving at call
// boundaries is complete for it; the simulator decides whose call is next.

type plCtx struct {
	ctx       *sql.Context
	owner     uint32
	label     string
	mustBeCan bool // model: this context must be cancelled by now
}

type plConn struct {
	id        uint32
	phase     int // 0 not connected, 1 added, 2 ready, 3 removed
	inQuery   bool
	inOp      bool
	query     string
	pid       uint64
	cur       *plCtx
	lastEnded *plCtx // context of the connection's previous, already ended query
	user      string
	host      string
	sess      *sql.BaseSession
}

func statusInt(name string) int64 {
	_, v, ok := sql.StatusVariables.GetGlobal(name)
	if !ok {
		return -1 << 40
	}
	switch x := v.(type) {
	case uint64:
		return int64(x)
	case int64:
		return x
	case int:
		return int64(x)
	}
	return -1 << 41
}

func checkC37a(env *kernel.Env) {
	T := env.T
	variables.InitStatusVariables()
	pl := sqle.NewProcessList()
	nconn := T.Range(2, 5)
	steps := T.Range(5, 60)
	conns := make([]*plConn, nconn)
	for i := range conns {
		conns[i] = &plConn{id: uint32(i + 1), user: fmt.Sprintf("u%d", i+1), host: fmt.Sprintf("10.0.0.%d:4000", i+1)}
	}
	if nconn >= 2 {
		env.Nontrivial()
	}
	var ctxs []*plCtx
	nextPid := uint64(0)
	base0 := statusInt("Threads_connected")
	run0 := statusInt("Threads_running")
	env.Logf("cfg conns=%d steps=%d", nconn, steps)

	verify := func(what string) bool {
		// (1) processes = model
		got := pl.Processes()
		sort.Slice(got, func(i, j int) bool { return got[i].Connection < got[j].Connection })
		var want []*plConn
		running := 0
		for _, c := range conns {
			if c.phase == 1 || c.phase == 2 {
				want = append(want, c)
			}
			if c.inQuery {
				running++
			}
		}
		if len(got) != len(want) {
			env.Fail("processlist-equals-model", "wrong-connection-set", "after %s: process list has %d entries %v, model has %d", what, len(got), procIDs(got), len(want))
			return false
		}
		for i, c := range want {
			g := got[i]
			if g.Connection != c.id {
				env.Fail("processlist-equals-model", "wrong-connection-set", "after %s: process list ids %v, model expects connection %d", what, procIDs(got), c.id)
				return false
			}
			wantCmd := sql.ProcessCommandSleep
			if c.phase == 1 {
				wantCmd = sql.ProcessCommandConnect
			}
			wantQ, wantPid := "", uint64(0)
			if c.inQuery {
				wantCmd, wantQ, wantPid = sql.ProcessCommandQuery, c.query, c.pid
			}
			if g.Command != wantCmd || g.Query != wantQ || g.QueryPid != wantPid {
				env.Fail("processlist-equals-model", "wrong-process-entry", "after %s: connection %d shows command=%q query=%q pid=%d, model says command=%q query=%q pid=%d",
					what, c.id, g.Command, g.Query, g.QueryPid, wantCmd, wantQ, wantPid)
				return false
			}
			wantUser := "unauthenticated user"
			if c.phase == 2 {
				wantUser = c.user
			}
			if g.User != wantUser || g.Host != c.host {
				env.Fail("processlist-equals-model", "wrong-identity", "after %s: connection %d shows user=%q host=%q, model says %q %q", what, c.id, g.User, g.Host, wantUser, c.host)
				return false
			}
		}
		// (2) counters
		if tc := statusInt("Threads_connected") - base0; tc != int64(len(want)) {
			env.Fail("threads-connected", "threads-connected", "after %s: Threads_connected=%d, %d connections in the model", what, tc, len(want))
			return false
		}
		if tr := statusInt("Threads_running") - run0; tr != int64(running) {
			env.Fail("threads-running", "threads-running", "after %s: Threads_running=%d, %d queries running in the model", what, tr, running)
			return false
		}
		// (3) cancellation: exactly the contexts the model says
		for _, c := range ctxs {
			can := c.ctx.Err() != nil
			if can != c.mustBeCan {
				cls := "context-not-cancelled"
				if can {
					cls = "untargeted-context-cancelled"
				}
				env.Fail("cancel-exactly-target", cls, "after %s: context %s of connection %d cancelled=%v, model says %v", what, c.label, c.owner, can, c.mustBeCan)
				return false
			}
		}
		return true
	}

	for st := 0; st < steps && !env.Failed(); st++ {
		c := conns[T.Draw(nconn)]
		// possible actions of this connection's own goroutine, by contract
		var acts []string
		switch c.phase {
		case 0:
			acts = []string{"add"}
		case 1:
			acts = []string{"ready", "remove"}
		case 2:
			switch {
			case c.inQuery:
				acts = []string{"endquery", "endquery", "progress"}
			case c.inOp:
				acts = []string{"endop"}
			default:
				acts = []string{"beginquery", "beginquery", "beginop", "remove", "ready"}
			}
		case 3:
			acts = nil
		}
		// kills may come from anybody at any time, for any id (live, idle, gone, never existed)
		acts = append(acts, "kill")
		// EndQuery is routinely called twice for one query (TrackedRowIter.Close and
		// the handler's deferred call); the second call may arrive late, after the
		// connection has moved on. It must be a no-op.
		if c.lastEnded != nil && (c.phase == 1 || c.phase == 2) {
			acts = append(acts, "stale-endquery")
		}
		a := acts[T.Draw(len(acts))]
		env.Kind(a)
		what := fmt.Sprintf("%s(c%d)", a, c.id)
		switch a {
		case "add":
			pl.AddConnection(c.id, c.host)
			c.phase = 1
		case "ready":
			c.sess = sql.NewBaseSessionWithClientServer("srv:3306", sql.Client{Address: c.host, User: c.user}, c.id)
			pl.ConnectionReady(c.sess)
			c.phase = 2
		case "remove":
			pl.RemoveConnection(c.id)
			c.phase = 3
		case "beginquery":
			nextPid++
			c.pid = nextPid
			c.query = fmt.Sprintf("SELECT %d /* c%d */", nextPid, c.id)
			in := sql.NewContext(context.Background(), sql.WithPid(c.pid), sql.WithSession(c.sess))
			out, err := pl.BeginQuery(in, c.query)
			if err != nil {
				env.Fail("begin-query-accepted", "begin-query-rejected", "BeginQuery on ready connection %d with fresh pid %d failed: %v", c.id, c.pid, err)
				break
			}
			c.inQuery = true
			c.cur = &plCtx{ctx: out, owner: c.id, label: fmt.Sprintf("query#%d", c.pid)}
			ctxs = append(ctxs, c.cur)
		case "endquery":
			pl.EndQuery(c.cur.ctx)
			c.cur.mustBeCan = true
			c.lastEnded = c.cur
			c.inQuery, c.cur, c.query, c.pid = false, nil, "", 0
		case "stale-endquery":
			pl.EndQuery(c.lastEnded.ctx)
			env.Probe("stale-endquery")
			if c.inQuery {
				env.Probe("stale-endquery-while-next-query-runs")
			}
		case "progress":
			pl.AddTableProgress(c.pid, "t", 10)
			pl.UpdateTableProgress(c.pid, "t", 1)
		case "beginop":
			nextPid++
			in := sql.NewContext(context.Background(), sql.WithPid(nextPid), sql.WithSession(c.sess))
			out, err := pl.BeginOperation(in)
			if err != nil {
				env.Fail("begin-operation-accepted", "begin-operation-rejected", "BeginOperation on idle connection %d failed: %v", c.id, err)
				break
			}
			c.inOp = true
			c.cur = &plCtx{ctx: out, owner: c.id, label: fmt.Sprintf("op#%d", nextPid)}
			ctxs = append(ctxs, c.cur)
		case "endop":
			pl.EndOperation(c.cur.ctx)
			c.cur.mustBeCan = true
			c.inOp, c.cur = false, nil
		case "kill":
			target := uint32(T.Draw(nconn+2)) + 1 // may name a connection that never existed
			what = fmt.Sprintf("kill(%d) issued by c%d", target, c.id)
			pl.Kill(target)
			env.Fault("kill")
			for _, t := range conns {
				if t.id == target && (t.phase == 1 || t.phase == 2) && t.cur != nil {
					t.cur.mustBeCan = true
					env.Probe("kill-hit-running-work")
				}
			}
		}
		if a == "remove" && c.cur != nil {
			c.cur.mustBeCan = true
		}
		env.Logf("%s", what)
		if !verify(what) {
			break
		}
	}
}

func procIDs(ps []sql.Process) []uint32 {
	var out []uint32
	for _, p := range ps {
		out = append(out, p.Connection)
	}
	return out
}

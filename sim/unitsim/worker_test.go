package unitsim

import (
	"io"
	"testing"

	"github.com/sirupsen/logrus"

	"verif/sim/kernel"
)

// TestWorker is the entry point used by the driver (cmd/verif).
func TestWorker(t *testing.T) {
	logrus.SetOutput(io.Discard)
	kernel.NoSelfCheck["C37r"] = true
	kernel.WorkerMain(t, map[string]kernel.CheckFn{
		"C38a": checkC38a(t),
		"C37a": checkC37a,
		"C37r": checkC37r,
		"C48":  checkC48(t),
		"C45":  checkC45(t),
	})
}

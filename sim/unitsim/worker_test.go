package unitsim

import (
	"testing"

	"verif/sim/kernel"
)

// TestWorker is the entry point used by the driver (cmd/verif).
func TestWorker(t *testing.T) {
	kernel.WorkerMain(t, map[string]kernel.CheckFn{
		"C38a": checkC38a(t),
	})
}

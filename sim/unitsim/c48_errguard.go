package unitsim

import (
	"context"
	"errors"
	"fmt"
	"strings"
	"testing"
	"testing/synctest"

	"golang.org/x/sync/errgroup"

	"github.com/dolthub/go-mysql-server/errguard"

	"verif/sim/kernel"
)

// C48: guarded goroutines. Generated programs are trees of errgroups whose
// functions run through errguard.Go; the scheduler decides the completion
// order by releasing one waiting function at a time.

type egExpect struct {
	kind int // 0 nil, 1 returned error (identity), 2 recovered panic (text)
	err  error
	text []string // substrings the recovered-panic error must contain
}

type egFn struct {
	name     string
	outcome  int // 0 nil, 1 error, 2 panic
	pkind    int
	child    *egGroup
	parent   *egGroup
	release  chan struct{}
	spawned  bool
	released bool
	done     bool
	ownErr   error
	result   egExpect
}

type egGroup struct {
	name      string
	withCtx   bool
	fns       []*egFn
	g         *errgroup.Group
	ctx       context.Context
	firstFail *egExpect
	completed int
	waited    bool
	got       error
	checked   bool
}

type egStruct struct {
	A int
	B string
}

func genGroup(T *kernel.Tape, name string, depth int, budget *int) *egGroup {
	g := &egGroup{name: name, withCtx: T.Bool(1, 2)}
	n := T.Range(1, 5)
	for i := 0; i < n && *budget > 0; i++ {
		*budget--
		f := &egFn{name: fmt.Sprintf("%s.f%d", name, i), parent: g}
		f.outcome = T.Pick(3, 2, 3)
		if f.outcome == 2 {
			f.pkind = T.Draw(12)
		}
		if depth < 2 && T.Bool(1, 4) {
			f.child = genGroup(T, f.name+".g", depth+1, budget)
		}
		g.fns = append(g.fns, f)
	}
	return g
}

var egSentinel = errors.New("sentinel")

func panicWith(kind int, name string) {
	switch kind {
	case 0:
		panic("boom in " + name)
	case 1:
		panic(errors.New("err value in " + name))
	case 2:
		panic(fmt.Errorf("wrapped in %s: %w", name, egSentinel))
	case 3:
		panic(42)
	case 4:
		panic(egStruct{7, name})
	case 5:
		panic(nil) //nolint
	case 6:
		var m map[string]int
		m[name] = 1
	case 7:
		var s []int
		idx := len(name) + 5
		_ = s[idx]
	case 8:
		panic(&egStruct{9, name})
	case 9: // a panic value that prints very long
		panic("big panic in " + name + " " + strings.Repeat("x", 9000))
	case 10:
		panic(errors.New("big error in " + name + " " + strings.Repeat("y", 70000)))
	case 11:
		panic(fmt.Errorf("%w: %s", egSentinel, strings.Repeat("z", 8170)+name))
	}
}

func panicText(kind int, name string) []string {
	switch kind {
	case 0:
		return []string{"boom in " + name}
	case 1:
		return []string{"err value in " + name}
	case 2:
		return []string{"wrapped in " + name + ": sentinel"}
	case 3:
		return []string{"42"}
	case 4:
		return []string{"{7 " + name + "}"}
	case 5:
		return []string{"nil"}
	case 6:
		return []string{"assignment to entry in nil map"}
	case 7:
		return []string{"index out of range"}
	case 8:
		return []string{"0x"} // a pointer prints as an address
	case 9:
		return []string{"big panic in " + name}
	case 10:
		return []string{"big error in " + name}
	case 11:
		return []string{"sentinel: zzzz"}
	}
	return nil
}

func checkC48(t *testing.T) kernel.CheckFn {
	return func(env *kernel.Env) {
		budget := 14
		root := genGroup(env.T, "g", 0, &budget)
		synctest.Test(t, func(t *testing.T) { runC48(env, root) })
	}
}

func runC48(env *kernel.Env, root *egGroup) {
	T := env.T
	var releasable func(g *egGroup, out *[]*egFn)
	releasable = func(g *egGroup, out *[]*egFn) {
		for _, f := range g.fns {
			if f.spawned && !f.released {
				*out = append(*out, f)
			}
			if f.child != nil && f.released && !f.done {
				releasable(f.child, out)
			}
		}
	}
	var spawn func(g *egGroup)
	spawn = func(g *egGroup) {
		if g.withCtx {
			g.g, g.ctx = errgroup.WithContext(context.Background())
		} else {
			g.g = &errgroup.Group{}
		}
		for _, f := range g.fns {
			f := f
			f.release = make(chan struct{})
			f.spawned = true
			if f.outcome == 1 {
				f.ownErr = fmt.Errorf("error of %s", f.name)
			}
			errguard.Go(g.g, func() error {
				<-f.release
				var nested error
				if f.child != nil {
					spawn(f.child)
					nested = f.child.g.Wait()
					f.child.got = nested
					f.child.waited = true
				}
				switch f.outcome {
				case 1:
					return f.ownErr
				case 2:
					panicWith(f.pkind, f.name)
				}
				return nested
			})
		}
	}
	spawn(root)
	nfn := 0
	var complete func(f *egFn)
	complete = func(f *egFn) {
		f.done = true
		switch f.outcome {
		case 0:
			if f.child != nil && f.child.firstFail != nil {
				f.result = *f.child.firstFail
			}
		case 1:
			f.result = egExpect{kind: 1, err: f.ownErr}
		case 2:
			f.result = egExpect{kind: 2, text: panicText(f.pkind, f.name)}
			env.Fault(fmt.Sprintf("panic-kind-%d", f.pkind))
		}
		g := f.parent
		g.completed++
		if f.result.kind != 0 && g.firstFail == nil {
			r := f.result
			g.firstFail = &r
		}
		env.Logf("  completed %s outcome=%d", f.name, f.result.kind)
	}
	// a parent completes in the same step as its last child
	var settle func(g *egGroup) bool
	settle = func(g *egGroup) bool {
		for _, f := range g.fns {
			if f.released && !f.done {
				if f.child == nil {
					complete(f)
				} else if settle(f.child) {
					complete(f)
				}
			}
		}
		return g.g != nil && g.completed == len(g.fns)
	}
	var checkCtx func(g *egGroup)
	checkCtx = func(g *egGroup) {
		if g.g == nil {
			return
		}
		if g.withCtx && !g.waited {
			can := g.ctx.Err() != nil
			if can != (g.firstFail != nil) {
				cls := "context-cancelled-early"
				if !can {
					cls = "context-not-cancelled-after-failure"
				}
				env.Fail("group-context", cls, "group %s: context cancelled=%v, a function has failed=%v", g.name, can, g.firstFail != nil)
			}
		}
		if g.waited && !g.checked && g.completed == len(g.fns) {
			g.checked = true
			exp := egExpect{}
			if g.firstFail != nil {
				exp = *g.firstFail
			}
			matchExpect(env, g.name, exp, g.got)
		}
		for _, f := range g.fns {
			if f.child != nil {
				checkCtx(f.child)
			}
		}
	}
	for !env.Failed() {
		synctest.Wait()
		settle(root)
		checkCtx(root)
		var rel []*egFn
		releasable(root, &rel)
		if len(rel) == 0 {
			break
		}
		f := rel[T.Draw(len(rel))]
		f.released = true
		nfn++
		env.Kind(fmt.Sprintf("release:o%d:c%v", f.outcome, f.child != nil))
		env.Logf("release %s (outcome=%d pkind=%d nested=%v)", f.name, f.outcome, f.pkind, f.child != nil)
		close(f.release)
	}
	if env.Failed() {
		// let everything finish so the bubble can end
		drainAll(root)
		synctest.Wait()
		return
	}
	if nfn >= 2 {
		env.Nontrivial()
	}
	root.got = root.g.Wait()
	root.waited = true
	checkCtx(root)
}

func drainAll(g *egGroup) {
	for _, f := range g.fns {
		if f.spawned && !f.released {
			f.released = true
			close(f.release)
		}
	}
	synctest.Wait()
	for _, f := range g.fns {
		if f.child != nil && f.child.g != nil {
			drainAll(f.child)
		}
	}
}

func matchExpect(env *kernel.Env, where string, exp egExpect, got error) {
	switch exp.kind {
	case 0:
		if got != nil {
			env.Fail("wait-result", "error-from-nothing", "group %s: nobody failed but Wait returned %v", where, got)
		}
	case 1:
		if got != exp.err {
			env.Fail("wait-result", "returned-error-not-propagated-unchanged", "group %s: Wait returned %v, want the first failing function's own error value %v (identical)", where, got, exp.err)
		}
	case 2:
		if got == nil {
			env.Fail("wait-result", "panic-swallowed", "group %s: first failure was a panic but Wait returned nil", where)
			return
		}
		msg := got.Error()
		if !strings.Contains(msg, "panic recovered") {
			env.Fail("wait-result", "panic-not-converted", "group %s: Wait returned %q, want a recovered-panic error", where, firstLineOf(msg))
			return
		}
		for _, s := range exp.text {
			if !strings.Contains(msg, s) {
				env.Fail("wait-result", "panic-value-lost", "group %s: recovered-panic error %q does not mention the panic value (%q)", where, firstLineOf(msg), s)
				return
			}
		}
	}
}

func firstLineOf(s string) string {
	if i := strings.IndexByte(s, '\n'); i >= 0 {
		return s[:i]
	}
	return s
}

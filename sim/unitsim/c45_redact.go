package unitsim

import (
	"fmt"
	"regexp"
	"strings"
	"testing"
	"testing/synctest"

	"github.com/dolthub/go-mysql-server/sql/sqlredact"
	"github.com/dolthub/go-mysql-server/verifhook"

	"verif/sim/kernel"
)

// C45 (concurrency clause): 2-4 tasks redact statements and single lexemes
// through one shared Mapping; the scheduler interleaves them at the
// RUnlock->Lock upgrade window of RedactIdent/RedactValue.

type rdLex struct {
	kind string // ident, value
	text string // lexeme as the mapping sees it
}

var rdIdentPool = []string{"orders", "cust", "status", "name", "k9", "comment", "data", "region", "x",
	// non-reserved keywords spelled with upper-case letters are identifiers all the same
	"Name", "STATUS", "Data", "Comment", "User", "Orders"}
var rdStrPool = []string{"alice", "bob", "secret pw", "4111-1111"}
var rdNumPool = []string{"1234", "77", "3.5", "900001"}

type rdStmt struct {
	sql     string
	lex     []rdLex
	struct_ map[string]bool // upper-cased structural tokens of the statement
	broken  bool
}

type rdBuilder struct {
	sb  strings.Builder
	lex []rdLex
	st  map[string]bool
	T   *kernel.Tape
}

func (b *rdBuilder) kw(words ...string) {
	for _, w := range words {
		if b.sb.Len() > 0 {
			b.sb.WriteByte(' ')
		}
		b.sb.WriteString(w)
		b.st[strings.ToUpper(w)] = true
	}
}
func (b *rdBuilder) ident() {
	id := rdIdentPool[b.T.Draw(len(rdIdentPool))]
	b.sb.WriteByte(' ')
	if b.T.Bool(1, 4) {
		b.sb.WriteString("`" + id + "`")
	} else {
		b.sb.WriteString(id)
	}
	b.lex = append(b.lex, rdLex{"ident", id})
}
func (b *rdBuilder) lit() {
	b.sb.WriteByte(' ')
	switch b.T.Pick(3, 3, 1, 1) {
	case 0:
		s := rdStrPool[b.T.Draw(len(rdStrPool))]
		b.sb.WriteString("'" + s + "'")
		b.lex = append(b.lex, rdLex{"value", s})
	case 1:
		n := rdNumPool[b.T.Draw(len(rdNumPool))]
		b.sb.WriteString(n)
		b.lex = append(b.lex, rdLex{"value", n})
	case 2:
		b.sb.WriteString("0x1F")
		b.lex = append(b.lex, rdLex{"value", "0x1F"})
	case 3:
		b.sb.WriteString("X'ABCD'")
		b.lex = append(b.lex, rdLex{"value", "ABCD"})
	}
}
func (b *rdBuilder) comment() {
	if b.T.Bool(1, 5) {
		b.sb.WriteString(" /* note about bob */")
	}
}

func genRedactStmt(T *kernel.Tape) rdStmt {
	b := &rdBuilder{st: map[string]bool{}, T: T}
	switch T.Draw(6) {
	case 0:
		b.kw("SELECT")
		b.ident()
		b.kw(",")
		b.ident()
		b.kw("FROM")
		b.ident()
		b.comment()
		b.kw("WHERE")
		b.ident()
		b.kw("=")
		b.lit()
		if T.Bool(1, 2) {
			b.kw("AND")
			b.ident()
			b.kw(">")
			b.lit()
		}
	case 1:
		b.kw("INSERT", "INTO")
		b.ident()
		b.kw("(")
		b.ident()
		b.kw(",")
		b.ident()
		b.kw(")", "VALUES", "(")
		b.lit()
		b.kw(",")
		b.lit()
		b.kw(")")
	case 2:
		b.kw("UPDATE")
		b.ident()
		b.kw("SET")
		b.ident()
		b.kw("=")
		b.lit()
		b.comment()
		b.kw("WHERE")
		b.ident()
		b.kw("<=")
		b.lit()
	case 3:
		b.kw("DELETE", "FROM")
		b.ident()
		b.kw("WHERE")
		b.ident()
		b.kw("IN", "(")
		b.lit()
		b.kw(",")
		b.lit()
		b.kw(")")
	case 4:
		b.kw("SELECT")
		b.ident()
		b.kw(".")
		b.ident()
		b.kw("FROM")
		b.ident()
		b.kw("AS")
		b.ident()
		b.kw("WHERE")
		b.ident()
		b.kw("IS", "NOT", "NULL", "LIMIT")
		b.lit2int()
	case 5:
		// not parseable: must yield only the marker
		b.kw("SELEC")
		b.ident()
		b.kw("FROM", "WHERE")
		b.lit()
		return rdStmt{sql: b.sb.String(), lex: b.lex, struct_: b.st, broken: true}
	}
	return rdStmt{sql: b.sb.String(), lex: b.lex, struct_: b.st}
}

func (b *rdBuilder) lit2int() {
	n := rdNumPool[b.T.Draw(2)]
	b.sb.WriteString(" " + n)
	b.lex = append(b.lex, rdLex{"value", n})
}

var rdPlaceholder = regexp.MustCompile("^(`n[0-9]+`|'v[0-9]+'|:v[0-9]+|X'v[0-9]+'|B'v[0-9]+')$")
var rdTokenOnly = regexp.MustCompile("[nv][0-9]+")

type rdRelation struct {
	tok map[string]string // kind|lexeme -> token
	rev map[string]string // kind|token -> lexeme
}

func (r *rdRelation) observe(env *kernel.Env, kind, lexeme, token, who string) {
	k := kind + "|" + lexeme
	if old, ok := r.tok[k]; ok && old != token {
		env.Fail("equal-lexemes-equal-tokens", "lexeme-two-tokens", "%s: %s %q got token %s, earlier it got %s", who, kind, lexeme, token, old)
		return
	}
	r.tok[k] = token
	rk := kind + "|" + token
	if old, ok := r.rev[rk]; ok && old != lexeme {
		env.Fail("different-lexemes-different-tokens", "token-two-lexemes", "%s: token %s stands for both %q and %q", who, token, old, lexeme)
		return
	}
	r.rev[rk] = lexeme
}

func checkC45(t *testing.T) kernel.CheckFn {
	return func(env *kernel.Env) {
		synctest.Test(t, func(t *testing.T) { runC45(env) })
	}
}

func runC45(env *kernel.Env) {
	T := env.T
	ntask := T.Range(2, 4)
	s := kernel.NewSched(env)
	if T.Bool(7, 8) {
		s.Arm("redact.upgrade")
	}
	verifhook.YieldFn = s.Yield
	defer func() { verifhook.YieldFn = nil }()
	m := sqlredact.NewMapping()
	rel := &rdRelation{tok: map[string]string{}, rev: map[string]string{}}
	type tk struct {
		task *kernel.Task
		left int
		busy bool
		fin  func()
	}
	var tasks []*tk
	for i := 0; i < ntask; i++ {
		tasks = append(tasks, &tk{task: s.Spawn(fmt.Sprintf("t%d", i+1)), left: T.Range(1, 4)})
	}
	env.Logf("cfg tasks=%d armed=%v", ntask, s.ArmedSites())
	startOp := func(i int, x *tk) {
		x.left--
		x.busy = true
		who := fmt.Sprintf("t%d", i+1)
		if T.Bool(1, 3) {
			// direct API call on one lexeme
			kind := "ident"
			var lexeme string
			if T.Bool(1, 2) {
				kind = "value"
				lexeme = append(append([]string{}, rdStrPool...), rdNumPool...)[T.Draw(len(rdStrPool)+len(rdNumPool))]
			} else {
				lexeme = rdIdentPool[T.Draw(len(rdIdentPool))]
			}
			env.Kind("call:" + kind)
			env.Logf("call %s Redact(%s %q)", who, kind, lexeme)
			var tok string
			x.task.Start(func() {
				if kind == "ident" {
					tok = m.RedactIdent(lexeme)
				} else {
					tok = m.RedactValue(lexeme)
				}
			})
			x.fin = func() {
				env.Kind("ret:" + kind)
				env.Logf("  ret %s %s %q -> %s", who, kind, lexeme, tok)
				if tok == lexeme || !rdTokenOnly.MatchString(tok) {
					env.Fail("no-leak", "lexeme-returned", "%s: Redact(%s %q) returned %q", who, kind, lexeme, tok)
				}
				rel.observe(env, kind, lexeme, tok, who)
			}
			return
		}
		st := genRedactStmt(T)
		env.Kind("call:sql")
		env.Logf("call %s RedactSQL(%q)", who, st.sql)
		var out string
		var err error
		x.task.Start(func() { out, err = sqlredact.RedactSQLForTraceInto(st.sql, m) })
		x.fin = func() {
			env.Kind("ret:sql")
			env.Logf("  ret %s -> %q err=%v", who, out, err != nil)
			if st.broken {
				if out != sqlredact.UnparseableMarker || err == nil {
					env.Fail("unparseable-marker", "unparseable-not-marker", "%s: unparseable input %q gave %q (err=%v)", who, st.sql, out, err)
				}
				return
			}
			if err != nil {
				// a non-reserved keyword in a position where the grammar does not
				// take it as a name: the input is unparseable, only the marker may come back
				env.Probe("keyword-name-unparseable")
				if out != sqlredact.UnparseableMarker {
					env.Fail("unparseable-marker", "unparseable-not-marker", "%s: input %q was rejected (%v) but gave %q", who, st.sql, err, out)
				}
				return
			}
			var ph []string
			for _, tok := range strings.Fields(out) {
				if rdPlaceholder.MatchString(tok) {
					ph = append(ph, tok)
					continue
				}
				if !st.struct_[strings.ToUpper(tok)] {
					env.Fail("no-leak", "non-structural-token-in-output", "%s: output %q of %q contains %q, which is neither a placeholder nor a keyword/operator of the statement", who, out, st.sql, tok)
					return
				}
			}
			low := strings.ToLower(out)
			for _, l := range st.lex {
				if len(l.text) > 1 && strings.Contains(low, strings.ToLower(l.text)) && !st.struct_[strings.ToUpper(l.text)] {
					env.Fail("no-leak", "lexeme-in-output", "%s: output %q still contains %q", who, out, l.text)
					return
				}
			}
			if len(ph) != len(st.lex) {
				env.Fail("token-structure", "placeholder-count", "%s: %q has %d identifiers/literals, output %q has %d placeholders", who, st.sql, len(st.lex), out, len(ph))
				return
			}
			for i, l := range st.lex {
				tok := rdTokenOnly.FindString(ph[i])
				wantPrefix := "n"
				if l.kind == "value" {
					wantPrefix = "v"
				}
				if !strings.HasPrefix(tok, wantPrefix) {
					env.Fail("token-structure", "placeholder-namespace", "%s: lexeme %d (%s %q) of %q became %s", who, i, l.kind, l.text, st.sql, ph[i])
					return
				}
				rel.observe(env, l.kind, l.text, tok, who)
			}
		}
	}
	steps := 0
	for !env.Failed() {
		synctest.Wait()
		steps++
		if steps > 2000 {
			env.Fail("bounded-steps", "livelock", "run did not finish within 2000 scheduler steps")
			break
		}
		for _, x := range tasks {
			if x.busy && x.task.Idle() {
				x.busy = false
				x.fin()
			}
		}
		if env.Failed() {
			break
		}
		type ev struct {
			kind string
			i    int
		}
		var evs []ev
		for i, x := range tasks {
			if _, ok := x.task.Parked(); ok {
				evs = append(evs, ev{"resume", i})
			} else if !x.busy && x.left > 0 {
				evs = append(evs, ev{"start", i})
			}
		}
		if len(evs) == 0 {
			break
		}
		e := evs[T.Draw(len(evs))]
		if e.kind == "start" {
			startOp(e.i, tasks[e.i])
		} else {
			env.Kind("resume")
			env.Probe("upgrade-window-opened")
			env.Logf("resume t%d at redact.upgrade", e.i+1)
			tasks[e.i].task.Resume()
		}
	}
	// release anything parked so that the bubble can end
	s.DisarmAll()
	for _, x := range tasks {
		if _, ok := x.task.Parked(); ok {
			x.task.Resume()
		}
	}
	synctest.Wait()
	for _, x := range tasks {
		if x.task.Idle() {
			x.task.Close()
		}
	}
	if env.Failed() {
		return
	}
	if len(s.Hits()) > 0 {
		env.Nontrivial()
	}
	// stability: every token ever handed out equals the final mapping's token
	ids, vals := m.Idents(), m.Values()
	for _, k := range kernel.SortedKeys(rel.tok) {
		tok := rel.tok[k]
		kind, lexeme, _ := strings.Cut(k, "|")
		final := ids[lexeme]
		if kind == "value" {
			final = vals[lexeme]
		}
		if final != tok {
			env.Fail("stable-tokens", "token-not-in-final-mapping", "%s %q was redacted to %s during the run but the mapping ends with %q", kind, lexeme, tok, final)
			return
		}
	}
	for _, mm := range []map[string]string{ids, vals} {
		seen := map[string]string{}
		for _, lexeme := range kernel.SortedKeys(mm) {
			tok := mm[lexeme]
			if o, dup := seen[tok]; dup {
				a, b := o, lexeme
				if a > b {
					a, b = b, a
				}
				env.Fail("different-lexemes-different-tokens", "token-two-lexemes", "final mapping gives token %s to both %q and %q", tok, a, b)
				return
			}
			seen[tok] = lexeme
		}
	}
}

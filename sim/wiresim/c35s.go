package wiresim

import (
	"context"
	"database/sql/driver"
	"fmt"
	"sort"
	"strings"
	"testing"
	"testing/synctest"
	"time"

	"verif/sim/kernel"
)

// C35s: what a connection sees after statements that fail. 2-4 connections of
// the go-sql-driver client take turns (one statement at a time, delivery
// fragmented and stalled by the scheduler) on a small table w:
//   - writes that succeed (INSERT, UPDATE, DELETE) and writes that fail while
//     executing (duplicate key on a later row, duplicate through UPDATE),
//   - statements that fail before executing (unknown column, unknown table),
//   - COM_STMT_PREPARE that succeeds (handle kept, executed later) or fails,
//   - reads of w over the text and the binary protocol.
// Oracle: every read of w by any connection returns exactly what the
// acknowledged writes of all connections add up to (the model), a failed
// statement changes nothing, and the table read in process agrees after every
// step. This is the part of C35 ("clients receive exactly the engine's
// results") that depends on the history of one connection: a connection that
// kept a stale transaction after a failure would read old data and, with its
// next successful statement, write it over the others' commits.

func checkC35s(t *testing.T) kernel.CheckFn {
	return func(env *kernel.Env) {
		synctest.Test(t, func(t *testing.T) { runC35s(env) })
	}
}

func runC35s(env *kernel.Env) {
	T := env.T
	w := NewWorld(env, Opts{})
	defer w.Close()
	ip := w.newInproc()
	ip.must("CREATE TABLE w (id INT PRIMARY KEY, x INT)")
	ip.must("CREATE TABLE big (id INT PRIMARY KEY, v INT)")
	ip.must("INSERT INTO big VALUES (1,1),(2,2),(3,3)")
	// strings outside ASCII, all inside U+0080..U+00FF where latin1 is one byte
	// per character with the code point as its value
	ip.must("CREATE TABLE sx (id INT PRIMARY KEY, s VARCHAR(20))")
	sxRows := []string{"ascii", "café", "naïve Über", "¡¿ñÿ"}
	for i, s := range sxRows {
		ip.must(fmt.Sprintf("INSERT INTO sx VALUES (%d, '%s')", i+1, s))
	}
	model := map[int64]int64{}
	n := T.Range(2, 4)
	charset := make([]string, 4) // per connection: what character_set_results was last set to
	var clients []*Client
	stmts := make([]map[string]driver.Stmt, n)
	for i := 0; i < n; i++ {
		c := w.NewClient(fmt.Sprintf("c%d", i+1))
		clients = append(clients, c)
		stmts[i] = map[string]driver.Stmt{}
		var cerr error
		c.NetID = w.nextNetID()
		c.Start(c.ConnectOp("root", "", "", &cerr), nil)
		if !w.Settle(clients, 5*time.Second) || cerr != nil {
			env.Fail("connect-succeeds", "connect-failed", "%s could not connect: %v", c.Name, cerr)
			return
		}
	}
	defer func() {
		for _, c := range clients {
			if !c.Busy && c.Conn != nil {
				c.Start(c.CloseOp(), nil)
			}
		}
		w.Settle(clients, 10*time.Second)
		w.Sched.Advance(500 * time.Millisecond)
		synctest.Wait()
		for _, c := range clients {
			if c.Task.Idle() {
				c.Task.Close()
			}
		}
		env.SimTimeNs = int64(w.Now())
	}()
	env.Nontrivial()
	render := func() string {
		var ids []int64
		for id := range model {
			ids = append(ids, id)
		}
		sort.Slice(ids, func(i, j int) bool { return ids[i] < ids[j] })
		var parts []string
		for _, id := range ids {
			parts = append(parts, fmt.Sprintf("(%d,%d)", id, model[id]))
		}
		return strings.Join(parts, " ")
	}
	rowsOf := func(r *Res) string {
		var parts []string
		for _, row := range r.Rows {
			parts = append(parts, "("+strings.Join(row, ",")+")")
		}
		return strings.Join(parts, " ")
	}
	fragment := T.Bool(2, 3)
	drive := func(c *Client, what string) bool {
		w.Drive(DriveCfg{Clients: clients, Fragment: fragment, MaxSteps: 3000, Advances: []time.Duration{time.Millisecond, 20 * time.Millisecond}})
		if env.Failed() {
			return false
		}
		if c.Busy {
			env.Fail("bounded-completion", "statement-hangs", "%s: %s did not complete", c.Name, what)
			return false
		}
		return true
	}
	nextID := int64(0)
	existing := func() (int64, bool) {
		var ids []int64
		for id := range model {
			ids = append(ids, id)
		}
		if len(ids) == 0 {
			return 0, false
		}
		sort.Slice(ids, func(i, j int) bool { return ids[i] < ids[j] })
		return ids[T.Draw(len(ids))], true
	}
	steps := T.Range(6, 30)
	// explicit transactions: while one connection has a transaction open only it
	// writes (the backend documents no isolation between overlapping writers);
	// the others read and must see the committed state only
	txOwner := -1
	var committed map[int64]int64
	copyModel := func(m map[int64]int64) map[int64]int64 {
		c := map[int64]int64{}
		for k, v := range m {
			c[k] = v
		}
		return c
	}
	connect := func(ci int) bool {
		c := clients[ci]
		var cerr error
		c.NetID = w.nextNetID()
		c.Start(c.ConnectOp("root", "", "", &cerr), nil)
		if !w.Settle(clients, 5*time.Second) || cerr != nil {
			env.Fail("connect-succeeds", "connect-failed", "%s could not reconnect: %v", c.Name, cerr)
			return false
		}
		stmts[ci] = map[string]driver.Stmt{}
		charset[ci] = ""
		return true
	}
	for step := 0; step < steps && !env.Failed(); step++ {
		ci := T.Draw(n)
		c := clients[ci]
		r := &Res{}
		var q, kind string
		wantErr := false
		apply := func() {}
		// transaction control and connection loss
		if tc := T.Draw(8); tc == 0 {
			switch {
			case txOwner < 0:
				c.Start(c.ExecOp("BEGIN", r), nil)
				if !drive(c, "begin") {
					return
				}
				env.Kind("begin")
				env.Logf("%s: BEGIN -> err=%v", c.Name, r.Err)
				if r.Err != nil {
					env.Fail("valid-statement-succeeds", "statement-refused:begin", "%s: BEGIN failed: %v", c.Name, r.Err)
					return
				}
				txOwner, committed = ci, copyModel(model)
			case T.Bool(1, 3):
				// the owner's connection is lost: the server must roll the transaction back
				o := clients[txOwner]
				env.Kind("reset-in-transaction")
				env.Fault("reset-in-transaction")
				env.Logf("RESET connection of %s inside its transaction", o.Name)
				w.Net.Reset(o.NetID)
				o.Start(o.CloseOp(), nil)
				w.Settle(clients, 5*time.Second)
				w.Sched.Advance(2 * time.Second)
				w.Settle(clients, 5*time.Second)
				model, committed = committed, nil
				if !connect(txOwner) {
					return
				}
				txOwner = -1
			default:
				o := clients[txOwner]
				end := []string{"COMMIT", "ROLLBACK"}[T.Draw(2)]
				o.Start(o.ExecOp(end, r), nil)
				if !drive(o, end) {
					return
				}
				env.Kind(strings.ToLower(end))
				env.Logf("%s: %s -> err=%v", o.Name, end, r.Err)
				if r.Err != nil {
					env.Fail("valid-statement-succeeds", "statement-refused:"+strings.ToLower(end), "%s: %s failed: %v", o.Name, end, r.Err)
					return
				}
				if end == "ROLLBACK" {
					model = committed
					env.Fault("rollback")
				}
				txOwner, committed = -1, nil
			}
			// the committed state, read in process
			e := ip.exec("SELECT id, x FROM w ORDER BY id")
			var parts []string
			for _, row := range e.rows {
				parts = append(parts, "("+strings.Join(row, ",")+")")
			}
			want := render()
			if txOwner >= 0 {
				cur := model
				model = committed
				want = render()
				model = cur
			}
			if got := strings.Join(parts, " "); e.err == nil && got != want {
				env.Fail("transactions-commit-or-roll-back", "committed-state-differs", "after the transaction step table w (committed state) holds [%s]; it must hold [%s]", got, want)
			}
			continue
		}
		if txOwner >= 0 && ci != txOwner {
			// not the owner: a read of the committed state
			c.Start(c.QueryOp("SELECT id, x FROM w ORDER BY id", nil, false, r), nil)
			if !drive(c, "read") {
				return
			}
			cur := model
			model = committed
			want := render()
			model = cur
			env.Kind("read:outside-transaction")
			env.Logf("%s: read w while %s has a transaction open -> %s", c.Name, clients[txOwner].Name, rowsOf(r))
			if r.Err == nil && rowsOf(r) != want {
				env.Fail("no-uncommitted-data-visible", "uncommitted-or-stale-rows", "%s reads w as [%s] while %s has an open transaction; the committed state is [%s]", c.Name, rowsOf(r), clients[txOwner].Name, want)
			}
			continue
		}
		switch T.Pick(5, 4, 2, 2, 3, 2, 2, 2, 5, 2, 2, 3) {
		case 10: // the connection changes the character set of its results
			cs := []string{"latin1", "utf8mb4", "latin1", "utf8mb3"}[T.Draw(4)]
			q = []string{"SET character_set_results = '%s'", "SET NAMES %s", "SET CHARACTER SET %s", "SET @@session.character_set_results = '%s'"}[T.Draw(4)]
			q = fmt.Sprintf(q, cs)
			c.Start(c.ExecOp(q, r), nil)
			if !drive(c, "set-charset") {
				return
			}
			env.Kind("set-charset:" + cs)
			env.Logf("%s: %s -> err=%v", c.Name, q, r.Err)
			if r.Err != nil {
				env.Fail("valid-statement-succeeds", "statement-refused:set-charset", "%s: %q failed: %v", c.Name, q, r.Err)
				return
			}
			charset[ci] = cs
			continue
		case 11: // strings arrive in the character set the connection asked for last
			how := "text"
			if T.Bool(1, 3) {
				how = "prepared"
				c.Start(c.QueryOp("SELECT id, s FROM sx WHERE id >= ? ORDER BY id", []driver.Value{int64(0)}, true, r), nil)
			} else {
				c.Start(c.QueryOp("SELECT id, s FROM sx ORDER BY id", nil, false, r), nil)
			}
			if !drive(c, "read-strings") {
				return
			}
			env.Kind("read-strings:" + how + ":" + charset[ci])
			var want []string
			for i, s := range sxRows {
				enc := s
				if charset[ci] == "latin1" {
					b := make([]byte, 0, len(s))
					for _, ru := range s {
						b = append(b, byte(ru))
					}
					enc = string(b)
				}
				want = append(want, fmt.Sprintf("(%d,%s)", i+1, enc))
			}
			got := rowsOf(r)
			env.Logf("%s: read sx (%s, results in %q) -> %q err=%v", c.Name, how, charset[ci], got, r.Err)
			if r.Err != nil {
				env.Fail("valid-statement-succeeds", "read-failed", "%s: reading sx (%s) failed: %v", c.Name, how, r.Err)
			} else if got != strings.Join(want, " ") {
				env.Fail("strings-in-the-requested-character-set", "wrong-result-encoding:"+how, "%s asked for results in %q last and reads sx (%s) as %q; the engine's strings in that character set are %q", c.Name, charset[ci], how, got, strings.Join(want, " "))
			}
			continue
		case 0: // INSERT two fresh rows
			kind = "insert"
			a, b := nextID+1, nextID+2
			nextID += 2
			q = fmt.Sprintf("INSERT INTO w VALUES (%d, %d), (%d, %d)", a, step, b, step)
			apply = func() { model[a], model[b] = int64(step), int64(step) }
		case 1: // INSERT whose second row collides: fails while executing
			kind = "insert-dup"
			dup, ok := existing()
			if !ok {
				continue
			}
			nextID++
			q = fmt.Sprintf("INSERT INTO w VALUES (%d, 0), (%d, 0)", nextID, dup)
			wantErr = true
		case 2: // UPDATE
			kind = "update"
			id, ok := existing()
			if !ok {
				continue
			}
			q = fmt.Sprintf("UPDATE w SET x = x + 100 WHERE id <= %d", id)
			apply = func() {
				for k := range model {
					if k <= id {
						model[k] += 100
					}
				}
			}
		case 3: // UPDATE that collides on the primary key
			kind = "update-dup"
			a, ok := existing()
			b, _ := existing()
			if !ok || a == b {
				continue
			}
			q = fmt.Sprintf("UPDATE w SET id = %d WHERE id = %d", a, b)
			wantErr = true
		case 4: // DELETE
			kind = "delete"
			id, ok := existing()
			if !ok {
				continue
			}
			q = fmt.Sprintf("DELETE FROM w WHERE id = %d", id)
			apply = func() { delete(model, id) }
		case 5: // fails before executing
			kind = "plan-error"
			q = []string{"UPDATE w SET nosuch = 1", "INSERT INTO nosuch VALUES (1)", "DELETE FROM w WHERE nosuch = 1"}[T.Draw(3)]
			wantErr = true
		case 6: // COM_STMT_PREPARE that fails
			kind = "prepare-fails"
			pq := []string{"SELECT nosuch FROM w WHERE id = ?", "INSERT INTO nosuch VALUES (?)"}[T.Draw(2)]
			var perr error
			c.Start(func() {
				st, err := c.Conn.(driver.ConnPrepareContext).PrepareContext(context.Background(), pq)
				if err == nil {
					st.Close()
				}
				perr = err
			}, nil)
			if !drive(c, "prepare") {
				return
			}
			env.Kind(kind)
			env.Logf("%s: PREPARE %s -> %v", c.Name, pq, perr != nil)
			if perr == nil {
				env.Fail("invalid-prepare-fails", "invalid-prepare-accepted", "%s: preparing %q succeeded", c.Name, pq)
			}
			continue
		case 7: // COM_STMT_PREPARE that succeeds; the handle is kept
			kind = "prepare"
			var perr error
			c.Start(func() {
				if stmts[ci]["sel"] != nil {
					return
				}
				st, err := c.Conn.(driver.ConnPrepareContext).PrepareContext(context.Background(), "SELECT id, x FROM w WHERE id >= ? ORDER BY id")
				perr = err
				if err == nil {
					stmts[ci]["sel"] = st
				}
			}, nil)
			if !drive(c, "prepare") {
				return
			}
			env.Kind(kind)
			env.Logf("%s: PREPARE select -> err=%v", c.Name, perr)
			if perr != nil {
				env.Fail("valid-statement-succeeds", "prepare-refused", "%s: PREPARE failed: %v", c.Name, perr)
			}
			continue
		case 8: // read of w: text protocol, a kept handle, or a fresh prepared statement
			kind = "read"
			how := "text"
			switch {
			case stmts[ci]["sel"] != nil && T.Bool(1, 2):
				how = "handle"
				st := stmts[ci]["sel"]
				c.Start(func() {
					rows, err := st.(driver.StmtQueryContext).QueryContext(context.Background(), []driver.NamedValue{{Ordinal: 1, Value: int64(0)}})
					if err != nil {
						r.Err = err
						return
					}
					dest := make([]driver.Value, 2)
					for rows.Next(dest) == nil {
						r.Rows = append(r.Rows, []string{renderDriverVal(dest[0]), renderDriverVal(dest[1])})
					}
					rows.Close()
				}, nil)
			case T.Bool(1, 3):
				how = "prepared"
				c.Start(c.QueryOp("SELECT id, x FROM w WHERE id >= ? ORDER BY id", []driver.Value{int64(0)}, true, r), nil)
			default:
				c.Start(c.QueryOp("SELECT id, x FROM w ORDER BY id", nil, false, r), nil)
			}
			if !drive(c, "read") {
				return
			}
			env.Kind(kind + ":" + how)
			got := rowsOf(r)
			env.Logf("%s: read w (%s) -> %s err=%v", c.Name, how, got, r.Err)
			if r.Err != nil {
				env.Fail("valid-statement-succeeds", "read-failed", "%s: reading w (%s) failed: %v", c.Name, how, r.Err)
			} else if got != render() {
				env.Fail("reads-see-acknowledged-writes", "stale-or-lost-rows:"+how, "%s reads w (%s) as [%s]; the writes acknowledged so far add up to [%s]", c.Name, how, got, render())
			}
			continue
		default: // a read of another table
			kind = "read-other"
			c.Start(c.QueryOp("SELECT COUNT(*) FROM big", nil, false, r), nil)
			if !drive(c, kind) {
				return
			}
			env.Kind(kind)
			env.Logf("%s: read big -> %s err=%v", c.Name, rowsOf(r), r.Err)
			continue
		}
		c.Start(c.ExecOp(q, r), nil)
		if !drive(c, kind) {
			return
		}
		env.Kind(fmt.Sprintf("%s:%v", kind, r.Err == nil))
		env.Logf("%s: %s -> err=%v affected=%d", c.Name, q, r.Err, r.Affected)
		switch {
		case wantErr && r.Err == nil:
			env.Fail("invalid-statement-fails", "failing-statement-accepted:"+kind, "%s: %q succeeded", c.Name, q)
		case !wantErr && r.Err != nil:
			env.Fail("valid-statement-succeeds", "statement-refused:"+kind, "%s: %q failed: %v", c.Name, q, r.Err)
		case r.Err == nil:
			apply()
		default:
			env.Fault("failed-statement:" + kind)
		}
		if env.Failed() {
			return
		}
		// the table read in process agrees with the model after every write attempt
		e := ip.exec("SELECT id, x FROM w ORDER BY id")
		var parts []string
		for _, row := range e.rows {
			parts = append(parts, "("+strings.Join(row, ",")+")")
		}
		want := render()
		if txOwner >= 0 {
			cur := model
			model = committed
			want = render()
			model = cur
		}
		if got := strings.Join(parts, " "); e.err == nil && got != want && txOwner >= 0 {
			env.Fail("no-uncommitted-data-visible", "uncommitted-write-visible", "after %s ran %q (err=%v) inside its transaction, table w read by another session holds [%s]; the committed state is [%s]", c.Name, q, r.Err, got, want)
		} else if e.err == nil && got != want {
			env.Fail("acknowledged-writes-stay", "committed-write-lost", "after %s ran %q (err=%v) table w holds [%s]; the acknowledged writes add up to [%s]", c.Name, q, r.Err, got, want)
		}
	}
}

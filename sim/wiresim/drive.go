package wiresim

import (
	"testing/synctest"
	"time"

	"verif/sim/kernel"
	"verif/sim/simnet"
)

// Ev is one event the scheduler may choose in a step.
type Ev struct {
	Kind   string
	Weight int
	Do     func()
}

// DriveCfg parametrises the generic World B scheduler loop.
type DriveCfg struct {
	Clients  []*Client
	Fragment bool
	// Events returns the check's own enabled events (client operation starts,
	// faults) for this step.
	Events func() []Ev
	// Invariant is evaluated at every quiescent point.
	Invariant func()
	// MaxSteps bounds the run.
	MaxSteps int
	// MaxAdvance caps a single clock advance when nothing is in flight.
	Advances []time.Duration
}

// Drive runs the scheduler loop until no event is enabled, a violation is
// recorded or the step bound is hit. It returns the simulated time of the
// last stall (network or parked goroutine held back while time passed).
func (w *World) Drive(cfg DriveCfg) {
	env, T := w.Env, w.Env.T
	if cfg.MaxSteps == 0 {
		cfg.MaxSteps = 20000
	}
	if cfg.Advances == nil {
		cfg.Advances = []time.Duration{time.Millisecond, 20 * time.Millisecond, 200 * time.Millisecond, 2 * time.Second}
	}
	for steps := 0; !env.Failed(); steps++ {
		synctest.Wait()
		if steps > cfg.MaxSteps {
			env.Fail("bounded-steps", "livelock", "run did not finish within %d scheduler steps", cfg.MaxSteps)
			return
		}
		for _, c := range cfg.Clients {
			c.Harvest()
		}
		if env.Failed() {
			return
		}
		if cfg.Invariant != nil {
			cfg.Invariant()
			if env.Failed() {
				return
			}
		}
		var evs []Ev
		for _, p := range w.Net.PendingHalves() {
			h, n := p.Half, p.Bytes
			evs = append(evs, Ev{"deliver", 6, func() {
				env.Logf("    deliver %s %d bytes", h.Name, n)
				w.Net.Deliver(h, 0)
			}})
			if cfg.Fragment && n > 1 {
				evs = append(evs, Ev{"fragment", 2, func() {
					k := 1 + T.Draw(n-1)
					env.Fault("fragment")
					env.Logf("    deliver %s %d of %d bytes", h.Name, k, n)
					w.Net.Deliver(h, k)
				}})
			}
		}
		parked := w.Sched.ParkedTasks()
		for _, pt := range parked {
			pt := pt
			site, _ := pt.Parked()
			evs = append(evs, Ev{"resume:" + site, 4, func() {
				env.Probe("yield:" + site)
				env.Logf("    resume %s", pt.Name)
				pt.Resume()
			}})
		}
		if cfg.Events != nil {
			evs = append(evs, cfg.Events()...)
		}
		busy := false
		for _, c := range cfg.Clients {
			busy = busy || c.Busy
		}
		if busy {
			evs = append(evs, Ev{"advance", 2, func() {
				d := cfg.Advances[T.Draw(len(cfg.Advances))]
				if w.Net.InFlight() || len(parked) > 0 {
					env.Fault("stall")
					w.LastStall = w.Now() + d
				}
				env.Logf("    advance %v (t=%v)", d, w.Now())
				w.Sched.Advance(d)
			}})
		}
		if len(evs) == 0 {
			return
		}
		ws := make([]int, len(evs))
		for i, e := range evs {
			ws[i] = e.Weight
		}
		e := evs[T.Pick(ws...)]
		env.Kind(e.Kind)
		e.Do()
	}
}

// Settle delivers everything and lets the clock run until no client is busy
// or the bound (simulated) is exceeded; no faults. Returns false on timeout.
func (w *World) Settle(clients []*Client, bound time.Duration) bool {
	deadline := w.Now() + bound
	for {
		synctest.Wait()
		for _, c := range clients {
			c.Harvest()
		}
		for _, p := range w.Net.PendingHalves() {
			w.Net.Deliver(p.Half, 0)
		}
		for _, pt := range w.Sched.ParkedTasks() {
			pt.Resume()
		}
		synctest.Wait()
		busy := w.Net.InFlight()
		for _, c := range clients {
			c.Harvest()
			busy = busy || c.Busy
		}
		if !busy {
			return true
		}
		if w.Now() > deadline {
			return false
		}
		w.Sched.Advance(10 * time.Millisecond)
	}
}

var _ = simnet.ErrReset
var _ *kernel.Env

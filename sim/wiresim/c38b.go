package wiresim

import (
	"fmt"
	"strings"
	"testing"
	"testing/synctest"
	"time"

	"github.com/anishathalye/porcupine"

	"verif/sim/kernel"
)

// C38b: named locks through SQL over the wire. 2-4 connections issue
// GET_LOCK / RELEASE_LOCK / IS_FREE_LOCK / IS_USED_LOCK / RELEASE_ALL_LOCKS;
// waits are on the simulated clock; a holder's connection may be reset (all
// its locks must become free). Oracles: porcupine linearizability against the
// sequential re-entrant lock model (a reset is a release-all by that
// connection somewhere after the reset), IS_USED_LOCK names the true holder's
// connection id, and after the run every lock is free.

const wlNames = 2

type wlCell struct{ holder, count int16 }
type wlState [wlNames]wlCell

type wlIn struct {
	op   string // get, rel, free, used, relall, drop
	sess int16
	name int
}
type wlOut struct {
	ok     bool
	n      int
	holder int16
	any    bool
}

// wlStep is the deterministic step of the lock model.
func wlStep(st wlState, in wlIn, out wlOut) (bool, wlState) {
	switch in.op {
	case "get":
		c := st[in.name]
		if c.holder == 0 || c.holder == in.sess {
			if !out.ok {
				return false, st
			}
			st[in.name] = wlCell{in.sess, c.count + 1}
			return true, st
		}
		return !out.ok, st
	case "rel":
		c := st[in.name]
		if c.holder == in.sess {
			if !out.ok {
				return false, st
			}
			if c.count > 1 {
				st[in.name] = wlCell{in.sess, c.count - 1}
			} else {
				st[in.name] = wlCell{}
			}
			return true, st
		}
		return !out.ok, st
	case "relall", "drop":
		n := 0
		for i := range st {
			if st[i].holder == in.sess {
				n += int(st[i].count)
				st[i] = wlCell{}
			}
		}
		return out.any || n == out.n, st
	case "free":
		return (st[in.name].holder == 0) == out.ok, st
	case "used":
		return st[in.name].holder == out.holder, st
	}
	return false, st
}

// wlModel: a statement whose answer was lost with its connection ("lost:<op>")
// may or may not have taken effect, with whatever outcome: both successor
// states are allowed.
var wlModel = (&porcupine.NondeterministicModel{
	Init: func() []interface{} { return []interface{}{wlState{}} },
	Step: func(state, input, output interface{}) []interface{} {
		st, in, out := state.(wlState), input.(wlIn), output.(wlOut)
		if strings.HasPrefix(in.op, "lost:") {
			in.op = strings.TrimPrefix(in.op, "lost:")
			res := []interface{}{st}
			for _, o := range []wlOut{{ok: true, any: true}, {ok: false, any: true}} {
				if ok, ns := wlStep(st, in, o); ok && ns != st {
					res = append(res, ns)
				}
			}
			return res
		}
		if ok, ns := wlStep(st, in, out); ok {
			return []interface{}{ns}
		}
		return nil
	},
	Equal: func(a, b interface{}) bool { return a.(wlState) == b.(wlState) },
}).ToModel()

func checkC38b(t *testing.T) kernel.CheckFn {
	return func(env *kernel.Env) {
		synctest.Test(t, func(t *testing.T) { runC38b(env) })
	}
}

func runC38b(env *kernel.Env) {
	T := env.T
	w := NewWorld(env, Opts{})
	defer w.Close()
	names := []string{"la", "lb"}
	nclients := T.Range(2, 4)
	type cl struct {
		*Client
		left   int
		sess   int16 // model session id of the current connection
		connID int64 // server connection id
		ready  bool
		dead   bool
		waits  bool // has a GET_LOCK with a timeout in flight
	}
	waiting := 0
	var clients []*cl
	var base []*Client
	nextSess := int16(0)
	connSess := map[int64]int16{} // server connection id -> model session
	var hist []porcupine.Operation
	connect := func(c *cl) bool {
		var cerr error
		c.NetID = w.nextNetID()
		c.Start(c.ConnectOp("root", "", "", &cerr), nil)
		if !w.Settle(base, 5*time.Second) || cerr != nil {
			env.Fail("connect-succeeds", "connect-failed", "%s could not connect: %v", c.Name, cerr)
			return false
		}
		var r Res
		c.Start(c.QueryOp("SELECT CONNECTION_ID()", nil, false, &r), nil)
		if !w.Settle(base, 5*time.Second) || r.Err != nil || len(r.Rows) != 1 {
			env.Fail("connect-succeeds", "connection-id-failed", "%s: SELECT CONNECTION_ID() failed: %v", c.Name, r.Err)
			return false
		}
		fmt.Sscan(r.Rows[0][0], &c.connID)
		nextSess++
		c.sess = nextSess
		connSess[c.connID] = c.sess
		c.ready, c.dead = true, false
		env.Logf("%s connected: connection id %d = model session %d", c.Name, c.connID, c.sess)
		return true
	}
	for i := 0; i < nclients; i++ {
		c := &cl{Client: w.NewClient(fmt.Sprintf("c%d", i+1)), left: T.Range(2, 7)}
		clients = append(clients, c)
		base = append(base, c.Client)
	}
	for _, c := range clients {
		if !connect(c) {
			return
		}
	}
	env.Nontrivial()
	resets := 0
	if T.Bool(1, 2) {
		resets = T.Range(1, 2)
	}
	startOp := func(c *cl) {
		c.left--
		in := wlIn{sess: c.sess, name: T.Draw(wlNames)}
		var q string
		switch T.Pick(5, 4, 1, 2, 1) {
		case 0:
			in.op = "get"
			timeout := []string{"0", "1", "0.3"}[T.Draw(3)]
			// at most one waiting GET_LOCK at a time: two waiters' 100µs polls that
			// fall on the same simulated instant would race in an order only the Go
			// runtime decides (the API-level check C38a owns that interleaving
			// through its yield points)
			if waiting > 0 {
				timeout = "0"
			}
			if timeout != "0" {
				waiting++
				c.waits = true
			}
			q = fmt.Sprintf("SELECT GET_LOCK('%s', %s)", names[in.name], timeout)
		case 1:
			in.op = "rel"
			q = fmt.Sprintf("SELECT RELEASE_LOCK('%s')", names[in.name])
		case 2:
			in.op = "free"
			q = fmt.Sprintf("SELECT IS_FREE_LOCK('%s')", names[in.name])
		case 3:
			in.op = "used"
			q = fmt.Sprintf("SELECT IS_USED_LOCK('%s')", names[in.name])
		case 4:
			in.op = "relall"
			q = "SELECT RELEASE_ALL_LOCKS()"
		}
		env.Kind("call:" + in.op)
		call := int64(env.Step())
		env.Logf("%s (session %d): %s", c.Name, c.sess, q)
		res := &Res{}
		sessAtCall := c.sess
		c.Start(c.QueryOp(q, nil, false, res), func() {
			env.Kind("ret:" + in.op)
			ret := int64(env.Step())
			if c.waits && !c.dead {
				// (a waiter lost with its connection may still be polling on the
				// server: then no further waiter is started in this run)
				c.waits = false
				waiting--
			}
			if res.Err != nil {
				if c.dead {
					env.Logf("  ret %s -> connection lost", c.Name)
					// the statement may or may not have taken effect, at any time from its
					// call on (the server may still be working on it)
					if in.op == "get" || in.op == "rel" || in.op == "relall" {
						lost := in
						lost.op = "lost:" + in.op
						hist = append(hist, porcupine.Operation{ClientId: int(sessAtCall), Input: lost, Call: call, Output: wlOut{any: true}, Return: 1 << 40})
						env.Probe("statement-lost-with-connection")
					}
					return
				}
				env.Fail("statement-succeeds", "lock-function-error", "%s failed: %v", q, res.Err)
				return
			}
			val := res.Rows[0][0]
			env.Logf("  ret %s -> %s", c.Name, val)
			out := wlOut{}
			switch in.op {
			case "get", "rel", "free":
				out.ok = val == "1"
			case "used":
				if val != "NULL" {
					var id int64
					fmt.Sscan(val, &id)
					s, known := connSess[id]
					if !known {
						env.Fail("is-used-lock-names-holder", "unknown-holder", "IS_USED_LOCK('%s') = %s, which is no connection of this run", names[in.name], val)
						return
					}
					out.holder = s
				}
			case "relall":
				// what is counted (names or re-entrant acquisitions) is not part of
				// the property; C38a checks the API's count
				fmt.Sscan(val, &out.n)
				out.any = true
			}
			hist = append(hist, porcupine.Operation{ClientId: int(sessAtCall), Input: in, Call: call, Output: out, Return: ret})
		})
	}
	w.Drive(DriveCfg{
		Clients:  base,
		Fragment: T.Bool(1, 3),
		Advances: []time.Duration{time.Millisecond, 50 * time.Millisecond, 400 * time.Millisecond, 2 * time.Second},
		Events: func() []Ev {
			var evs []Ev
			for _, c := range clients {
				c := c
				if !c.Busy && c.ready && c.left > 0 {
					evs = append(evs, Ev{"start", 5, func() { startOp(c) }})
				}
				if resets > 0 && c.ready && !c.dead && c.NetID > 0 {
					evs = append(evs, Ev{"reset", 1, func() {
						resets--
						env.Fault("holder-connection-reset")
						env.Logf("RESET connection of %s (session %d, busy=%v)", c.Name, c.sess, c.Busy)
						// the drop releases everything the session holds, at some point from now on
						hist = append(hist, porcupine.Operation{ClientId: int(c.sess) + 100, Input: wlIn{op: "drop", sess: c.sess}, Call: int64(env.Step()), Output: wlOut{any: true}, Return: 1 << 40})
						w.Net.Reset(c.NetID)
						c.dead, c.ready = true, false
						c.NetID = -1
					}})
				}
			}
			return evs
		},
	})
	if env.Failed() {
		return
	}
	// waiting: with a holder in place, GET_LOCK(name, 2) does not give up before two
	// simulated seconds and GET_LOCK(name, -1) waits without limit until the holder lets go
	var live []*cl
	for _, c := range clients {
		if c.ready && !c.dead && !c.Busy && c.Conn != nil {
			live = append(live, c)
		}
	}
	if len(live) >= 2 && waiting == 0 && T.Bool(1, 2) {
		a, b := live[0], live[1]
		run := func(c *cl, q string) *Res {
			r := &Res{}
			c.Start(c.QueryOp(q, nil, false, r), nil)
			return r
		}
		first := func(r *Res) string {
			if r.Err != nil || len(r.Rows) != 1 {
				return fmt.Sprintf("error %v", r.Err)
			}
			return r.Rows[0][0]
		}
		ra := run(a, "SELECT GET_LOCK('zz', 0)")
		w.Settle(base, 5*time.Second)
		env.Kind("wait-scenario")
		if first(ra) != "1" {
			env.Fail("free-lock-is-granted", "free-lock-refused", "GET_LOCK('zz', 0) on a name nobody uses returned %s", first(ra))
			return
		}
		t0 := w.Now()
		rb := run(b, "SELECT GET_LOCK('zz', 2)")
		w.Settle(base, 30*time.Second)
		if el := w.Now() - t0; first(rb) != "0" || el < 2*time.Second {
			env.Fail("timeout-not-early", "early-or-wrong-timeout", "GET_LOCK('zz', 2) while %s holds zz returned %s after %v simulated", a.Name, first(rb), el)
			return
		}
		rb = run(b, "SELECT GET_LOCK('zz', -1)")
		for i := 0; i < 40; i++ {
			w.Settle(base, 250*time.Millisecond)
			w.Sched.Advance(250 * time.Millisecond)
		}
		synctest.Wait()
		if !b.Busy && b.Task.Idle() || len(rb.Rows) > 0 || rb.Err != nil {
			env.Fail("negative-timeout-waits", "infinite-wait-gave-up", "GET_LOCK('zz', -1) while %s holds zz came back (%s) after %v simulated; a negative timeout waits without limit", a.Name, first(rb), w.Now()-t0)
			return
		}
		rr := run(a, "SELECT RELEASE_LOCK('zz')")
		w.Settle(base, 10*time.Second)
		if first(rr) != "1" || first(rb) != "1" {
			env.Fail("waiter-gets-freed-lock", "waiter-not-served", "after %s released zz (-> %s) the waiting GET_LOCK('zz', -1) of %s returned %s", a.Name, first(rr), b.Name, first(rb))
			return
		}
		rr = run(b, "SELECT RELEASE_LOCK('zz')")
		w.Settle(base, 10*time.Second)
		env.Probe("wait-scenario-checked")
	}
	// closing phase: everybody disconnects; then every lock must be free
	for _, c := range clients {
		// (a reset connection is closed too: the driver's own goroutines must end)
		if !c.Busy && c.Conn != nil {
			c.Start(c.CloseOp(), nil)
		}
	}
	w.Settle(base, 10*time.Second)
	w.Sched.Advance(500 * time.Millisecond)
	synctest.Wait()
	for _, n := range names {
		if st, owner := w.Eng.LS.GetLockState(n); st == 1 { // sql.LockInUse
			env.Fail("released-on-disconnect", "lock-leaked", "lock %s is still held by connection %d after every connection ended", n, owner)
			return
		}
	}
	for _, c := range clients {
		if c.Task.Idle() {
			c.Task.Close()
		}
	}
	env.SimTimeNs = int64(w.Now())
	switch porcupine.CheckOperationsTimeout(wlModel, hist, 20*time.Second) {
	case porcupine.Illegal:
		env.Fail("linearizable", "not-linearizable", "the history of %d lock operations over the wire has no sequential explanation under the re-entrant lock model", len(hist))
	case porcupine.Unknown:
		env.Probe("porcupine-unknown")
	}
}

package wiresim

import (
	"bytes"
	"crypto/sha1"
	"errors"
	"fmt"
	"io"
	"net"
)

// A minimal MySQL protocol client for handshakes the real driver would never
// send (truncated, extended, corrupted or repeated auth responses).

type rawConn struct {
	c   net.Conn
	seq byte
}

func (r *rawConn) readPacket() ([]byte, error) {
	var hdr [4]byte
	if _, err := io.ReadFull(r.c, hdr[:]); err != nil {
		return nil, err
	}
	n := int(hdr[0]) | int(hdr[1])<<8 | int(hdr[2])<<16
	r.seq = hdr[3] + 1
	buf := make([]byte, n)
	if _, err := io.ReadFull(r.c, buf); err != nil {
		return nil, err
	}
	return buf, nil
}

func (r *rawConn) writePacket(p []byte) error {
	hdr := []byte{byte(len(p)), byte(len(p) >> 8), byte(len(p) >> 16), r.seq}
	r.seq++
	_, err := r.c.Write(append(hdr, p...))
	return err
}

// greeting is what the server's initial handshake packet said.
type greeting struct {
	connID uint32
	salt   []byte
	plugin string
}

func parseGreeting(p []byte) (*greeting, error) {
	if len(p) < 1 || p[0] != 10 {
		if len(p) > 0 && p[0] == 0xff {
			return nil, fmt.Errorf("server sent ERR instead of a greeting")
		}
		return nil, fmt.Errorf("unexpected protocol version")
	}
	g := &greeting{}
	i := 1
	j := bytes.IndexByte(p[i:], 0)
	if j < 0 {
		return nil, errors.New("bad greeting")
	}
	i += j + 1
	if len(p) < i+4+8+1+2+1+2+2+1+10 {
		return nil, errors.New("short greeting")
	}
	g.connID = uint32(p[i]) | uint32(p[i+1])<<8 | uint32(p[i+2])<<16 | uint32(p[i+3])<<24
	i += 4
	g.salt = append(g.salt, p[i:i+8]...)
	i += 8 + 1 // filler
	i += 2 + 1 + 2 + 2
	authLen := int(p[i])
	i += 1 + 10
	n := authLen - 8
	if n < 13 {
		n = 13
	}
	if len(p) < i+n {
		return nil, errors.New("short greeting (salt part 2)")
	}
	part2 := p[i : i+n]
	if k := bytes.IndexByte(part2, 0); k >= 0 {
		part2 = part2[:k]
	}
	g.salt = append(g.salt, part2...)
	i += n
	if k := bytes.IndexByte(p[i:], 0); k >= 0 {
		g.plugin = string(p[i : i+k])
	} else {
		g.plugin = string(p[i:])
	}
	return g, nil
}

// nativeScramble = SHA1(password) XOR SHA1(salt + SHA1(SHA1(password)))
func nativeScramble(password string, salt []byte) []byte {
	if password == "" {
		return nil
	}
	h1 := sha1.Sum([]byte(password))
	h2 := sha1.Sum(h1[:])
	c := sha1.New()
	c.Write(salt)
	c.Write(h2[:])
	h3 := c.Sum(nil)
	out := make([]byte, 20)
	for i := range out {
		out[i] = h1[i] ^ h3[i]
	}
	return out
}

const (
	capLongPassword     = 1
	capProtocol41       = 1 << 9
	capSecureConnection = 1 << 15
	capPluginAuth       = 1 << 19
)

func handshakeResponse(user string, auth []byte, plugin string) []byte {
	caps := uint32(capLongPassword | capProtocol41 | capSecureConnection | capPluginAuth)
	p := []byte{byte(caps), byte(caps >> 8), byte(caps >> 16), byte(caps >> 24), 0, 0, 0, 1, 45}
	p = append(p, make([]byte, 23)...)
	p = append(p, user...)
	p = append(p, 0)
	p = append(p, byte(len(auth)))
	p = append(p, auth...)
	p = append(p, plugin...)
	p = append(p, 0)
	return p
}

// authOutcome of a raw login attempt.
type authOutcome struct {
	accepted bool
	errNum   int
	closed   bool // connection closed / reset without an ERR packet
	detail   string
	connID   uint32
	user     string // CURRENT_USER() when accepted and asked
}

func parseErr(p []byte) int {
	if len(p) >= 3 && p[0] == 0xff {
		return int(p[1]) | int(p[2])<<8
	}
	return 0
}

// mutate alters the proof the way the fault says.
func mutateProof(proof []byte, fault string, arg int) []byte {
	switch fault {
	case "truncate":
		if arg < len(proof) {
			return append([]byte{}, proof[:arg]...)
		}
	case "extend":
		return append(append([]byte{}, proof...), bytes.Repeat([]byte{0x41}, arg)...)
	case "flip":
		if len(proof) > 0 {
			out := append([]byte{}, proof...)
			out[arg%len(out)] ^= 1 << uint(arg%8)
			return out
		}
	case "garbage":
		return bytes.Repeat([]byte{0x5a}, 20)
	}
	return proof
}

// rawLogin performs one handshake. stopAfter: 0 = complete, 1 = close after
// reading the greeting, 2 = close after sending the response.
func rawLogin(c net.Conn, user, password, fault string, arg, stopAfter int, askUser bool) authOutcome {
	r := &rawConn{c: c}
	defer c.Close()
	out := authOutcome{}
	p, err := r.readPacket()
	if err != nil {
		out.closed, out.detail = true, "no greeting: "+err.Error()
		return out
	}
	g, err := parseGreeting(p)
	if err != nil {
		out.errNum, out.detail = parseErr(p), err.Error()
		return out
	}
	out.connID = g.connID
	if stopAfter == 1 {
		out.closed, out.detail = true, "client left after the greeting"
		return out
	}
	proof := mutateProof(nativeScramble(password, g.salt), fault, arg)
	if err := r.writePacket(handshakeResponse(user, proof, "mysql_native_password")); err != nil {
		out.closed, out.detail = true, "write failed: "+err.Error()
		return out
	}
	if fault == "twice" {
		r.seq--
		_ = r.writePacket(handshakeResponse(user, proof, "mysql_native_password"))
	}
	if stopAfter == 2 {
		out.closed, out.detail = true, "client left after sending its response"
		return out
	}
	for step := 0; step < 4; step++ {
		p, err = r.readPacket()
		if err != nil {
			out.closed, out.detail = true, "connection closed without an answer: "+err.Error()
			return out
		}
		switch {
		case len(p) > 0 && p[0] == 0x00:
			out.accepted = true
		case len(p) > 0 && p[0] == 0xff:
			out.errNum = parseErr(p)
			return out
		case len(p) > 0 && p[0] == 0xfe:
			// auth switch request: plugin name, new salt
			rest := p[1:]
			k := bytes.IndexByte(rest, 0)
			if k < 0 {
				out.detail = "bad auth switch"
				return out
			}
			plugin := string(rest[:k])
			salt := bytes.TrimRight(rest[k+1:], "\x00")
			if plugin != "mysql_native_password" {
				out.detail = "server asked for plugin " + plugin
				return out
			}
			proof = mutateProof(nativeScramble(password, salt), fault, arg)
			if err := r.writePacket(proof); err != nil {
				out.closed = true
				return out
			}
			continue
		default:
			out.detail = fmt.Sprintf("unexpected packet 0x%02x", p[0])
			return out
		}
		break
	}
	if !out.accepted || !askUser {
		return out
	}
	// COM_QUERY SELECT CURRENT_USER()
	r.seq = 0
	if err := r.writePacket(append([]byte{0x03}, "SELECT CURRENT_USER()"...)); err != nil {
		return out
	}
	// column count, column def, (EOF), row, EOF/OK
	// without CLIENT_DEPRECATE_EOF: column count, column definition, EOF, row, EOF
	for i := 0; i < 5; i++ {
		p, err := r.readPacket()
		if err != nil {
			break
		}
		if len(p) > 0 && p[0] == 0xff {
			out.detail = fmt.Sprintf("CURRENT_USER() failed with %d", parseErr(p))
			break
		}
		if i == 3 && len(p) > 1 && int(p[0]) == len(p)-1 {
			out.user = string(p[1:])
		}
	}
	_ = r.writePacket([]byte{0x01}) // COM_QUIT
	return out
}

package wiresim

import (
	"io"
	"testing"

	"github.com/sirupsen/logrus"

	"verif/sim/kernel"
)

// TestWorker is the entry point used by the driver (cmd/verif).
func TestWorker(t *testing.T) {
	logrus.SetOutput(io.Discard)
	kernel.WorkerMain(t, map[string]kernel.CheckFn{
		"C35":  checkC35(t),
		"C38b": checkC38b(t),
		"C37b": checkC37b(t),
		"C40":  checkC40(t),
		"C12b": checkC12b(t),
		"C35s": checkC35s(t),
	})
}

package wiresim

import (
	"fmt"
	"strings"
	"testing"
	"testing/synctest"
	"time"

	sqle "github.com/dolthub/go-mysql-server"
	"github.com/dolthub/go-mysql-server/memory"
	"github.com/dolthub/go-mysql-server/sql"
	"github.com/dolthub/go-mysql-server/sql/mysql_db"

	"verif/sim/kernel"
)

// C40: authentication. A raw protocol client performs handshakes over the
// simulated network against accounts created by the harness: correct proof,
// wrong password, empty proof for a password account, a proof for a
// no-password account, unknown user, locked account, right password from a
// non-matching host; faults on the handshake: the auth response truncated to
// every length, extended, bit-flipped, replaced by garbage, sent twice, the
// client leaving after each handshake step, fragmented delivery; an admin
// session creating / dropping / locking accounts in between.
//
// Oracle: a login is accepted iff the model has an unlocked account for that
// user whose host pattern matches the client address and the proof verifies
// under the salt the server sent (the harness computes SHA1 itself); after
// acceptance CURRENT_USER() is the matched account; a refused or aborted
// attempt leaves no connection behind; the server survives everything (a
// later well-formed login succeeds).

type c40Account struct {
	user, host, password string
	locked               bool
}

func createUserSQL(a *c40Account) string {
	q := fmt.Sprintf("CREATE USER '%s'@'%s'", a.user, a.host)
	if a.password != "" {
		q += fmt.Sprintf(" IDENTIFIED WITH mysql_native_password BY '%s'", a.password)
	}
	if a.locked {
		q += " ACCOUNT LOCK"
	}
	return q
}

func hostMatches(pattern, ip string) bool {
	switch {
	case pattern == "%":
		return true
	case pattern == "localhost":
		return ip == "127.0.0.1"
	case strings.Contains(pattern, "%"):
		// % matches any run of characters, anywhere in the pattern; the whole
		// address has to match
		parts := strings.Split(pattern, "%")
		if !strings.HasPrefix(ip, parts[0]) {
			return false
		}
		rest := ip[len(parts[0]):]
		for i := 1; i < len(parts); i++ {
			if i == len(parts)-1 {
				return strings.HasSuffix(rest, parts[i])
			}
			j := strings.Index(rest, parts[i])
			if j < 0 {
				return false
			}
			rest = rest[j+len(parts[i]):]
		}
	}
	return pattern == ip
}

func checkC40(t *testing.T) kernel.CheckFn {
	return func(env *kernel.Env) {
		synctest.Test(t, func(t *testing.T) { runC40(env) })
	}
}

func runC40(env *kernel.Env) {
	T := env.T
	w := NewWorld(env, Opts{Setup: func(eng *sqle.Engine, pro *memory.DbProvider) {
		db := eng.Analyzer.Catalog.MySQLDb
		db.SetPersister(&mysql_db.NoopPersister{})
		db.AddRootAccount()
	}})
	defer w.Close()
	ips := []string{"127.0.0.1", "10.1.2.3", "10.1.2.33", "192.168.0.5", "192.168.0.55", "192.168.10.5", "172.16.0.9"}
	clientIP := map[int]string{}
	w.Net.ClientIP = func(id int) string {
		if ip, ok := clientIP[id]; ok {
			return ip
		}
		return "127.0.0.1"
	}
	// admin session straight on the engine, as root@localhost
	adminSess := memory.NewSession(sql.NewBaseSessionWithClientServer("inproc", sql.Client{Address: "localhost", User: "root"}, 9999), w.Pro)
	adminSess.SetCurrentDatabase("d")
	admin := &inproc{w: w, sess: adminSess}
	hosts := []string{"%", "localhost", "10.%", "192.168.0.5", "%.0.5", "10.%.3", "192.%.0.5"}
	var accounts []*c40Account
	naccounts := T.Range(1, 4)
	for i := 0; i < naccounts; i++ {
		a := &c40Account{user: fmt.Sprintf("u%d", i+1), host: hosts[T.Draw(len(hosts))]}
		if T.Bool(3, 4) {
			a.password = []string{"pw1", "secret", "x"}[T.Draw(3)]
		}
		a.locked = T.Bool(1, 6)
		admin.must(createUserSQL(a))
		accounts = append(accounts, a)
		env.Logf("account %s@%s password=%q locked=%v", a.user, a.host, a.password, a.locked)
	}
	find := func(user string) *c40Account {
		for _, a := range accounts {
			if a.user == user {
				return a
			}
		}
		return nil
	}
	cl := w.NewClient("raw")
	base := []*Client{cl}
	attempts := T.Range(2, 8)
	fragment := T.Bool(1, 2)
	wellFormedOK := 0
	for n := 0; n < attempts && !env.Failed(); n++ {
		if T.Bool(1, 5) && len(accounts) > 0 {
			// the admin changes an account between attempts
			a := accounts[T.Draw(len(accounts))]
			switch T.Draw(3) {
			case 0, 1:
				// (ALTER USER .. ACCOUNT LOCK is not in the grammar: drop and re-create)
				admin.must(fmt.Sprintf("DROP USER '%s'@'%s'", a.user, a.host))
				a.locked = !a.locked
				admin.must(createUserSQL(a))
				env.Logf("admin re-creates %s with locked=%v", a.user, a.locked)
			default:
				np := []string{"pw1", "other", "z9"}[T.Draw(3)]
				admin.must(fmt.Sprintf("ALTER USER '%s'@'%s' IDENTIFIED WITH mysql_native_password BY '%s'", a.user, a.host, np))
				a.password = np
				env.Logf("admin sets password of %s to %q", a.user, np)
			}
			env.Kind("admin-change")
		}
		// the attempt
		user := fmt.Sprintf("u%d", 1+T.Draw(naccounts+1)) // may be unknown
		acct := find(user)
		password := ""
		if acct != nil {
			password = acct.password
		}
		pwKind := T.Pick(6, 2, 1, 1)
		switch pwKind {
		case 1:
			password = "wrong"
		case 2:
			password = ""
		case 3:
			password = "pw1"
		}
		fault, arg, stop := "", 0, 0
		switch T.Pick(8, 3, 2, 2, 1, 1, 1, 1) {
		case 1:
			fault, arg = "truncate", T.Draw(20)
		case 2:
			fault, arg = "extend", 1+T.Draw(12)
		case 3:
			fault, arg = "flip", T.Draw(160)
		case 4:
			fault = "garbage"
		case 5:
			fault = "twice"
		case 6:
			stop = 1
		case 7:
			stop = 2
		}
		ip := ips[T.Draw(len(ips))]
		id := w.nextNetID()
		clientIP[id] = ip
		// expected verdict
		// what is sent, relative to the honest proof for `password` (20 bytes, or
		// empty when password is empty); the salt does not matter for this
		baseLen := 20
		if password == "" {
			baseLen = 0
		}
		sentEqualsBase := fault == "" || fault == "twice" || (fault == "truncate" && arg >= baseLen) || (fault == "flip" && baseLen == 0)
		sentEmpty := (baseLen == 0 && fault != "extend" && fault != "garbage") || (fault == "truncate" && arg == 0)
		proofValid := false
		if acct != nil {
			if acct.password != "" {
				proofValid = password == acct.password && sentEqualsBase
			} else {
				proofValid = sentEmpty
			}
		}
		wantAccept := acct != nil && !acct.locked && hostMatches(acct.host, ip) && proofValid && stop == 0
		uncertain := fault == "twice" // the duplicate packet is read as a command afterwards: only survival is checked
		env.Kind(fmt.Sprintf("login:%s:%d:%v", fault, stop, wantAccept))
		env.Logf("attempt %d: user=%s from %s password-kind=%d fault=%s/%d stop=%d -> expect accept=%v", n, user, ip, pwKind, fault, arg, stop, wantAccept)
		if fault != "" || stop != 0 {
			env.Fault("handshake-" + fault + fmt.Sprintf("%d", stop))
		}
		var out authOutcome
		cl.Start(func() {
			c, err := w.Net.Dial()
			if err != nil {
				out.closed, out.detail = true, err.Error()
				return
			}
			out = rawLogin(c, user, password, fault, arg, stop, true)
		}, nil)
		w.Drive(DriveCfg{Clients: base, Fragment: fragment, MaxSteps: 2000, Advances: []time.Duration{time.Millisecond, 50 * time.Millisecond}})
		if env.Failed() {
			return
		}
		if cl.Busy {
			env.Fail("bounded-completion", "handshake-hangs", "login attempt %d did not complete", n)
			return
		}
		env.Logf("  -> accepted=%v err=%d closed=%v user=%q %s", out.accepted, out.errNum, out.closed, out.user, out.detail)
		switch {
		case uncertain:
		case out.accepted && !wantAccept:
			cls := "accepted-wrong-proof"
			if fault != "" {
				cls = "accepted-malformed-proof:" + fault
			} else if acct == nil {
				cls = "accepted-unknown-user"
			} else if acct.locked {
				cls = "accepted-locked-account"
			} else if !hostMatches(acct.host, ip) {
				cls = "accepted-wrong-host"
			}
			env.Fail("accept-iff-valid", cls, "login as %s from %s (password kind %d, fault %s/%d) was ACCEPTED; the model says it must be refused", user, ip, pwKind, fault, arg)
		case !out.accepted && wantAccept:
			env.Fail("accept-iff-valid", "valid-login-refused", "login as %s from %s with the right password was refused (err %d, closed=%v, %s)", user, ip, out.errNum, out.closed, out.detail)
		case out.accepted && out.user != "" && acct != nil && out.user != acct.user+"@"+acct.host:
			env.Fail("session-identity", "wrong-current-user", "logged in as %s@%s but CURRENT_USER() = %s", acct.user, acct.host, out.user)
		case !out.accepted && stop == 0 && out.closed && out.errNum == 0:
			// refused, but without an ERR packet: the connection just died
			env.Fail("refusal-is-an-error-packet", "refused-without-error:"+fault, "login as %s (fault %s/%d) was not answered with an ERR packet: %s", user, fault, arg, out.detail)
		}
		if out.accepted {
			wellFormedOK++
		}
		// nothing left behind
		if !env.Failed() {
			deadline := w.Now() + 2*time.Second
			for len(w.Eng.ProcessList.Processes()) > 0 && w.Now() < deadline {
				w.Settle(base, time.Second)
				w.Sched.Advance(20 * time.Millisecond)
			}
			if n := len(w.Eng.ProcessList.Processes()); n > 0 {
				env.Fail("attempt-leaves-nothing", "connection-leaked", "2 simulated seconds after the attempt ended the process list still shows %d connection(s)", n)
			}
		}
	}
	// the server must still serve a well-formed login
	if !env.Failed() {
		admin.must("CREATE USER 'final'@'%' IDENTIFIED WITH mysql_native_password BY 'fin'")
		var out authOutcome
		cl.Start(func() {
			c, err := w.Net.Dial()
			if err != nil {
				out.closed = true
				return
			}
			out = rawLogin(c, "final", "fin", "", 0, 0, true)
		}, nil)
		w.Settle(base, 10*time.Second)
		if !out.accepted {
			env.Fail("server-survives", "later-login-fails", "after the attempts a well-formed login is refused (err %d closed=%v %s)", out.errNum, out.closed, out.detail)
		}
	}
	// every attempt has ended (accepted and closed, refused, or abandoned half-way): after the
	// server has noticed, no connection of theirs is left in the process list
	if !env.Failed() {
		w.Sched.Advance(2 * time.Second)
		w.Settle(base, 10*time.Second)
		w.Sched.Advance(2 * time.Second)
		synctest.Wait()
		if left := w.Eng.ProcessList.Processes(); len(left) > 0 {
			var l []string
			for _, p := range left {
				l = append(l, fmt.Sprintf("%d:%s:%s", p.Connection, p.User, p.Command))
			}
			env.Fail("connections-are-forgotten", "processlist-leftover", "all clients have gone but the process list still holds %d connection(s): %s", len(left), strings.Join(l, " "))
		}
		env.Probe("processlist-empty-checked")
	}
	if cl.Task.Idle() {
		cl.Task.Close()
	}
	env.Nontrivial()
	env.SimTimeNs = int64(w.Now())
}

package wiresim

import (
	"context"
	"database/sql/driver"
	"encoding/hex"
	"fmt"
	"io"
	"strconv"
	"strings"
	"testing"
	"testing/synctest"
	"time"

	"verif/sim/kernel"
)

// C12b: prepared statements over the binary protocol behave like the inlined
// text. Two connections of the go-sql-driver client talk to the whole server
// over the simulated network: P prepares parameterised statements
// (COM_STMT_PREPARE), keeps the handles and executes them again and again with
// typed binary parameters (COM_STMT_EXECUTE) against table tp; L sends the same
// statement with the values written as literals by the harness (COM_QUERY)
// against the identical table tl. Both run at the same time while the
// scheduler fragments and stalls the byte streams; an admin connection applies
// the same DML / DDL (column added, dropped, moved, renamed, index changes,
// table re-created) to both tables between executions, so that handles outlive
// schema changes. Oracle: result rows, affected rows, error presence and the
// tables' contents agree between the two paths at every step.

type c12bTmpl struct {
	name  string
	sql   string // %T = table
	kinds []string
	write bool
}

var c12bTemplates = []c12bTmpl{
	{"sel-eq", "SELECT id, a, s FROM %T WHERE a = ? ORDER BY id", []string{"int"}, false},
	{"sel-str", "SELECT id, a FROM %T WHERE s = ? ORDER BY id", []string{"str"}, false},
	{"sel-range", "SELECT id FROM %T WHERE a > ? AND s <> ? ORDER BY id", []string{"int", "str"}, false},
	{"sel-in", "SELECT id FROM %T WHERE id IN (?, ?, ?) ORDER BY id", []string{"int", "int", "cmp"}, false},
	{"sel-null-safe", "SELECT id FROM %T WHERE a <=> ? ORDER BY id", []string{"cmp"}, false},
	{"sel-limit", "SELECT id FROM %T ORDER BY id LIMIT ? OFFSET ?", []string{"small", "small"}, false},
	{"sel-count", "SELECT COUNT(*) FROM %T WHERE a BETWEEN ? AND ?", []string{"int", "int"}, false},
	{"sel-param-str", "SELECT id, CONCAT(s, ?) FROM %T WHERE id < ? ORDER BY id", []string{"str", "int"}, false},
	{"sel-len", "SELECT LENGTH(?), HEX(?), ? IS NULL", []string{"any", "any", "any"}, false},
	{"sel-star", "SELECT * FROM %T WHERE id = ?", []string{"int"}, false},
	{"ins", "INSERT INTO %T (id, a, s) VALUES (?, ?, ?)", []string{"int", "int", "str"}, true},
	{"ins-nocols", "INSERT INTO %T VALUES (?, ?, ?)", []string{"int", "int", "str"}, true},
	{"upd", "UPDATE %T SET a = ? WHERE id = ?", []string{"int", "int"}, true},
	{"upd-str", "UPDATE %T SET s = ? WHERE a >= ?", []string{"str", "int"}, true},
	{"del", "DELETE FROM %T WHERE a < ?", []string{"int"}, true},
}

var c12bStrings = []string{"a", "it's", `back\slash`, "", "x y", "ABC", `q"uote`, "%_", "0", "12abc", "ünï", strings.Repeat("long", 80)}

func c12bParam(T *kernel.Tape, kind string) driver.Value {
	switch kind {
	case "small":
		return int64(T.Draw(6))
	case "int":
		if T.Bool(1, 10) {
			return nil
		}
		if T.Bool(1, 8) {
			return []int64{2147483647, -2147483648, 0, -1, 255, 256, 65535, 4294967296}[T.Draw(8)]
		}
		return int64(T.Draw(12))
	case "str":
		if T.Bool(1, 10) {
			return nil
		}
		return c12bStrings[T.Draw(len(c12bStrings))]
	}
	n := 7
	if kind == "cmp" {
		// compared with an integer column: no binary strings (X'..' written as a
		// literal is a number in numeric context, a binary parameter is a string),
		// no booleans, no times
		n = 3
	}
	switch T.Draw(n) {
	case 0:
		return nil
	case 1:
		return int64(T.Draw(1000)) - 500
	case 2:
		return float64(T.Draw(2000)-1000) / 4
	case 3:
		return []byte{0x00, 0x27, 0x5c, byte(T.Draw(256))}
	case 4:
		return T.Bool(1, 2)
	case 5:
		return time.Date(2020+T.Draw(5), time.Month(1+T.Draw(12)), 1+T.Draw(28), T.Draw(24), T.Draw(60), T.Draw(60), 0, time.UTC)
	}
	return c12bStrings[T.Draw(len(c12bStrings))]
}

// c12bLit writes a parameter value as SQL literal text (the harness's own quoting).
func c12bLit(v driver.Value) string {
	switch x := v.(type) {
	case nil:
		return "NULL"
	case int64:
		return fmt.Sprint(x)
	case float64:
		return strconv.FormatFloat(x, 'f', -1, 64) // shortest text: -208, 2.25
	case bool:
		if x {
			return "1"
		}
		return "0"
	case []byte:
		return "X'" + hex.EncodeToString(x) + "'"
	case time.Time:
		// go-sql-driver sends a time.Time as a string parameter and leaves the time of
		// day out when it is midnight (appendDateTime): the inlined text is that string
		if x.Hour() == 0 && x.Minute() == 0 && x.Second() == 0 && x.Nanosecond() == 0 {
			return "'" + x.Format("2006-01-02") + "'"
		}
		return "'" + x.Format("2006-01-02 15:04:05") + "'"
	case string:
		return "'" + strings.ReplaceAll(strings.ReplaceAll(x, `\`, `\\`), "'", "''") + "'"
	}
	return "NULL"
}

func checkC12b(t *testing.T) kernel.CheckFn {
	return func(env *kernel.Env) {
		synctest.Test(t, func(t *testing.T) { runC12b(env) })
	}
}

func runC12b(env *kernel.Env) {
	T := env.T
	w := NewWorld(env, Opts{})
	defer w.Close()
	P, L, A := w.NewClient("P"), w.NewClient("L"), w.NewClient("A")
	all := []*Client{P, L, A}
	for _, c := range all {
		var cerr error
		c.NetID = w.nextNetID()
		c.Start(c.ConnectOp("root", "", "", &cerr), nil)
		if !w.Settle(all, 5*time.Second) || cerr != nil {
			env.Fail("connect-succeeds", "connect-failed", "%s could not connect: %v", c.Name, cerr)
			return
		}
	}
	stmts := map[string]driver.Stmt{}
	defer func() {
		// everybody disconnects (the driver's own goroutines must end before the bubble does)
		for _, c := range all {
			if !c.Busy && c.Conn != nil {
				c.Start(c.CloseOp(), nil)
			}
		}
		w.Settle(all, 10*time.Second)
		w.Sched.Advance(500 * time.Millisecond)
		synctest.Wait()
		for _, c := range all {
			if c.Task.Idle() {
				c.Task.Close()
			}
		}
		env.SimTimeNs = int64(w.Now())
	}()
	admin := func(q string) (string, string) {
		var out [2]string
		for i, tbl := range []string{"tp", "tl"} {
			r := &Res{}
			A.Start(A.ExecOp(strings.ReplaceAll(q, "%T", tbl), r), nil)
			if !w.Settle(all, 10*time.Second) {
				env.Fail("bounded-completion", "admin-statement-hangs", "admin statement %q did not complete", q)
				return "", ""
			}
			out[i] = "ok"
			if r.Err != nil {
				out[i] = fmt.Sprintf("err%d", ErrNum(r.Err))
			}
		}
		return out[0], out[1]
	}
	ddl := "CREATE TABLE %T (id INT PRIMARY KEY, a INT, s VARCHAR(400), KEY ka (a))"
	admin(ddl)
	for i, n := 0, T.Range(4, 10); i < n; i++ {
		admin(fmt.Sprintf("INSERT INTO %%T VALUES (%d, %d, %s)", i, T.Draw(10), c12bLit(c12bStrings[T.Draw(len(c12bStrings)-1)])))
	}
	render := func(r *Res) string {
		if r.Err != nil {
			return fmt.Sprintf("ERROR %d", ErrNum(r.Err))
		}
		if r.IsExec {
			return fmt.Sprintf("OK affected=%d", r.Affected)
		}
		var rows []string
		for _, row := range r.Rows {
			rows = append(rows, "("+strings.Join(row, ",")+")")
		}
		return strings.Join(rows, " ")
	}
	readTable := func(tbl string) string {
		r := &Res{}
		A.Start(A.QueryOp("SELECT * FROM "+tbl+" ORDER BY 1, 2", nil, false, r), nil)
		if !w.Settle(all, 10*time.Second) {
			return "TIMEOUT"
		}
		return render(r)
	}
	fragment := T.Bool(2, 3)
	steps := T.Range(5, 24)
	for step := 0; step < steps && !env.Failed(); step++ {
		if T.Bool(1, 5) {
			q := []string{
				"ALTER TABLE %T ADD COLUMN extra INT DEFAULT 7",
				"ALTER TABLE %T DROP COLUMN extra",
				"DROP INDEX ka ON %T",
				"CREATE INDEX ka ON %T (a)",
				"DROP TABLE %T",
				ddl,
				fmt.Sprintf("INSERT INTO %%T (id, a, s) VALUES (%d, %d, 'adm')", 20+T.Draw(10), T.Draw(10)),
				fmt.Sprintf("DELETE FROM %%T WHERE id = %d", T.Draw(12)),
				"ALTER TABLE %T MODIFY COLUMN a BIGINT",
				"ALTER TABLE %T MODIFY COLUMN a INT FIRST",
				"ALTER TABLE %T MODIFY COLUMN a INT AFTER id",
				"ALTER TABLE %T RENAME COLUMN s TO s2",
				"ALTER TABLE %T RENAME COLUMN s2 TO s",
			}[T.Draw(13)]
			c1, c2 := admin(q)
			env.Kind("admin")
			env.Logf("admin: %s -> %s | %s", q, c1, c2)
			if c1 != c2 && !env.Failed() {
				env.Fail("twin-tables-agree", "admin-diverged", "admin statement %q: on tp %s, on tl %s", q, c1, c2)
			}
			if strings.HasPrefix(q, "DROP TABLE") || strings.HasPrefix(q, "ALTER") {
				env.Probe("schema-changed-under-handle")
			}
			continue
		}
		tm := c12bTemplates[T.Draw(len(c12bTemplates))]
		args := make([]driver.Value, len(tm.kinds))
		lit := strings.ReplaceAll(tm.sql, "%T", "tl")
		for i, k := range tm.kinds {
			args[i] = c12bParam(T, k)
			lit = strings.Replace(lit, "?", c12bLit(args[i]), 1)
		}
		psql := strings.ReplaceAll(tm.sql, "%T", "tp")
		rp, rl := &Res{}, &Res{}
		// P: prepare once, keep the handle, execute with binary parameters
		P.Start(func() {
			ctx := context.Background()
			st := stmts[tm.name]
			if st == nil {
				var err error
				st, err = P.Conn.(driver.ConnPrepareContext).PrepareContext(ctx, psql)
				if err != nil {
					rp.Err = err
					return
				}
				stmts[tm.name] = st
			} else {
				env.Probe("handle-re-executed")
			}
			named := make([]driver.NamedValue, len(args))
			for i, a := range args {
				named[i] = driver.NamedValue{Ordinal: i + 1, Value: a}
			}
			if tm.write {
				rp.IsExec = true
				r, err := st.(driver.StmtExecContext).ExecContext(ctx, named)
				if err != nil {
					rp.Err = err
					return
				}
				rp.Affected, _ = r.RowsAffected()
				return
			}
			rows, err := st.(driver.StmtQueryContext).QueryContext(ctx, named)
			if err != nil {
				rp.Err = err
				return
			}
			rp.Cols = rows.Columns()
			dest := make([]driver.Value, len(rp.Cols))
			for {
				err := rows.Next(dest)
				if err == io.EOF {
					break
				}
				if err != nil {
					rp.Err = err
					break
				}
				r := make([]string, len(dest))
				for i, v := range dest {
					r[i] = renderDriverVal(v)
				}
				rp.Rows = append(rp.Rows, r)
			}
			rows.Close()
		}, nil)
		// L: the same statement as text
		if tm.write {
			L.Start(L.ExecOp(lit, rl), nil)
		} else {
			L.Start(L.QueryOp(lit, nil, false, rl), nil)
		}
		w.Drive(DriveCfg{Clients: all, Fragment: fragment, MaxSteps: 4000, Advances: []time.Duration{time.Millisecond, 20 * time.Millisecond}})
		if env.Failed() {
			return
		}
		if P.Busy || L.Busy {
			env.Fail("bounded-completion", "statement-hangs", "step %d: %s did not complete (P busy=%v, L busy=%v)", step, tm.name, P.Busy, L.Busy)
			return
		}
		gp, gl := render(rp), render(rl)
		env.Kind("stmt:" + tm.name)
		env.Logf("%s: %s -> binary: %s | text: %s", tm.name, lit, gp, gl)
		if rp.Err != nil && stmts[tm.name] != nil && rl.Err == nil {
			// a handle that fails after a schema change may simply be stale: MySQL
			// re-prepares transparently; what must not happen is a wrong result
			env.Probe("handle-failed-after-schema-change")
		}
		if gp != gl {
			cls := "result-differs"
			if (rp.Err != nil) != (rl.Err != nil) {
				cls = "error-presence-differs"
			}
			extra := ""
			if tm.write {
				extra = fmt.Sprintf("\ntp now: %s\ntl now: %s", readTable("tp"), readTable("tl"))
			}
			env.Fail("prepared-equals-literal", cls+":binary:"+tm.name, "%s through a kept binary-protocol handle with parameters %v gives [%s]; the same statement as text (%s) gives [%s]%s", psql, args, gp, lit, gl, extra)
			return
		}
		if tm.write {
			t1, t2 := readTable("tp"), readTable("tl")
			if t1 != t2 {
				env.Fail("prepared-equals-literal", "effects-differ:binary:"+tm.name, "after %s through the binary protocol tp is [%s]; after the text form tl is [%s]", psql, t1, t2)
				return
			}
		}
		env.Nontrivial()
	}
}

// Package wiresim is World B: the whole server (vitess listener and
// connection code, the handler with its spool pipeline and disconnect
// watcher, the engine) inside a synctest bubble, on the simulated network
// and clock; clients are the real go-sql-driver (or a raw protocol client
// for malformed handshakes) running as scheduler tasks.
package wiresim

import (
	"context"
	"database/sql/driver"
	"fmt"
	"io"
	"log"
	"net"
	"strings"
	"sync"
	"time"

	mysqldrv "github.com/go-sql-driver/mysql"

	sqle "github.com/dolthub/go-mysql-server"
	"github.com/dolthub/go-mysql-server/memory"
	"github.com/dolthub/go-mysql-server/server"
	"github.com/dolthub/go-mysql-server/sql"
	"github.com/dolthub/go-mysql-server/sql/variables"
	"github.com/dolthub/go-mysql-server/verifhook"

	"verif/sim/kernel"
	"verif/sim/simnet"
)

var (
	curNetMu sync.Mutex
	curNet   *simnet.Net
	regOnce  sync.Once
)

func registerDialer() {
	regOnce.Do(func() {
		_ = mysqldrv.SetLogger(log.New(io.Discard, "", 0))
		mysqldrv.RegisterDialContext("simnet", func(ctx context.Context, addr string) (net.Conn, error) {
			curNetMu.Lock()
			n := curNet
			curNetMu.Unlock()
			if n == nil {
				return nil, fmt.Errorf("no simulated network")
			}
			return n.Dial()
		})
	})
}

// World is one server + network + clients.
type World struct {
	Env   *kernel.Env
	Net   *simnet.Net
	Pro   *memory.DbProvider
	DB    *memory.Database
	Eng   *sqle.Engine
	Srv   *server.Server
	Sched *kernel.Sched
	start time.Time
	done  chan struct{}
	// LastStall is the simulated time until which the scheduler last held back
	// deliverable bytes or a parked goroutine while the clock advanced.
	LastStall time.Duration
}

// Opts configures the server.
type Opts struct {
	ReadTimeout  time.Duration
	WriteTimeout time.Duration
	Setup        func(eng *sqle.Engine, pro *memory.DbProvider)
	// DisableWatcher switches the disconnect watcher off (server.Config.DisableConnectionWatcher).
	DisableWatcher bool
}

// NewWorld starts a server on a fresh simulated network. Must be called
// inside the bubble.
func NewWorld(env *kernel.Env, o Opts) *World {
	registerDialer()
	variables.InitSystemVariables()
	variables.InitStatusVariables()
	db := memory.NewDatabase("d")
	pro := memory.NewDBProvider(db)
	eng := sqle.NewDefault(pro)
	if o.Setup != nil {
		o.Setup(eng, pro)
	}
	n := simnet.New()
	curNetMu.Lock()
	curNet = n
	curNetMu.Unlock()
	cfg := server.Config{Protocol: "tcp", Address: "sim:3306", Listener: n.Listener(), ConnReadTimeout: o.ReadTimeout, ConnWriteTimeout: o.WriteTimeout,
		DisableConnectionWatcher: o.DisableWatcher}
	srv, err := server.NewServer(cfg, eng, sql.NewContext, memory.NewSessionBuilder(pro), nil)
	if err != nil {
		kernel.Harnessf("server.NewServer: %v", err)
	}
	w := &World{Env: env, Net: n, Pro: pro, DB: db, Eng: eng, Srv: srv, Sched: kernel.NewSched(env), start: time.Now(), done: make(chan struct{})}
	// goroutines of the server that hit an armed yield site park under the
	// name "<site>#<connection id>" until the scheduler resumes them
	w.Sched.DynPark = true
	verifhook.YieldFn = w.Sched.Yield
	go func() {
		_ = srv.Start()
		close(w.done)
	}()
	return w
}

func (w *World) nextNetID() int { return w.Net.NextID() }

// Now is the simulated time since the world started.
func (w *World) Now() time.Duration { return time.Since(w.start) }

// Close shuts the server down.
func (w *World) Close() {
	w.ReleaseParked()
	verifhook.YieldFn = nil
	_ = w.Srv.Close()
	<-w.done
	curNetMu.Lock()
	curNet = nil
	curNetMu.Unlock()
}

// ReleaseParked disarms every yield site and resumes whoever is parked.
func (w *World) ReleaseParked() {
	w.Sched.DisarmAll()
	for _, t := range w.Sched.ParkedTasks() {
		t.Resume()
	}
}

// Client is one simulated client connection driven as a scheduler task.
type Client struct {
	W     *World
	Name  string
	Task  *kernel.Task
	Conn  driver.Conn
	NetID int // simnet connection id of the current connection (0 = none)
	Busy  bool
	fin   func()
}

// NewClient creates a client task (not yet connected).
func (w *World) NewClient(name string) *Client {
	return &Client{W: w, Name: name, Task: w.Sched.Spawn(name)}
}

// Res is what a client observed for one statement.
type Res struct {
	Err      error
	Cols     []string
	Rows     [][]string // values rendered; NULL as "NULL"
	Affected int64
	LastID   int64
	IsExec   bool
}

// ConnectOp returns the operation that opens the client's connection.
func (c *Client) ConnectOp(user, pass, params string, out *error) func() {
	return func() {
		cfg := mysqldrv.NewConfig()
		cfg.Net, cfg.Addr, cfg.User, cfg.Passwd, cfg.DBName = "simnet", "sim", user, pass, "d"
		cfg.AllowNativePasswords = true
		cfg.InterpolateParams = false
		cfg.MultiStatements = strings.Contains(params, "multi")
		cfg.Timeout = 0
		connector, err := mysqldrv.NewConnector(cfg)
		if err != nil {
			*out = err
			return
		}
		conn, err := connector.Connect(context.Background())
		if err != nil {
			*out = err
			return
		}
		c.Conn = conn
	}
}

func renderDriverVal(v driver.Value) string {
	switch x := v.(type) {
	case nil:
		return "NULL"
	case []byte:
		return string(x)
	case string:
		return x
	case time.Time:
		return x.Format("2006-01-02 15:04:05")
	default:
		return fmt.Sprint(x)
	}
}

// QueryOp returns the operation running q (text protocol when args is nil,
// binary protocol through a prepared statement otherwise).
func (c *Client) QueryOp(q string, args []driver.Value, prepared bool, out *Res) func() {
	return func() {
		ctx := context.Background()
		var rows driver.Rows
		var err error
		if prepared {
			var st driver.Stmt
			st, err = c.Conn.(driver.ConnPrepareContext).PrepareContext(ctx, q)
			if err != nil {
				out.Err = err
				return
			}
			defer st.Close()
			named := make([]driver.NamedValue, len(args))
			for i, a := range args {
				named[i] = driver.NamedValue{Ordinal: i + 1, Value: a}
			}
			rows, err = st.(driver.StmtQueryContext).QueryContext(ctx, named)
		} else {
			rows, err = c.Conn.(driver.QueryerContext).QueryContext(ctx, q, nil)
		}
		if err != nil {
			out.Err = err
			return
		}
		out.Cols = rows.Columns()
		dest := make([]driver.Value, len(out.Cols))
		for {
			err := rows.Next(dest)
			if err == io.EOF {
				break
			}
			if err != nil {
				out.Err = err
				break
			}
			r := make([]string, len(dest))
			for i, v := range dest {
				r[i] = renderDriverVal(v)
			}
			out.Rows = append(out.Rows, r)
		}
		rows.Close()
	}
}

// ExecOp returns the operation executing a statement without result set.
func (c *Client) ExecOp(q string, out *Res) func() {
	return func() {
		out.IsExec = true
		r, err := c.Conn.(driver.ExecerContext).ExecContext(context.Background(), q, nil)
		if err != nil {
			out.Err = err
			return
		}
		out.Affected, _ = r.RowsAffected()
		out.LastID, _ = r.LastInsertId()
	}
}

// CloseOp closes the client's connection.
func (c *Client) CloseOp() func() {
	return func() {
		if c.Conn != nil {
			_ = c.Conn.Close()
			c.Conn = nil
		}
	}
}

// Start runs op on the client's task; fin is called by Harvest when done.
func (c *Client) Start(op func(), fin func()) {
	c.Busy = true
	c.fin = fin
	c.Task.Start(op)
}

// Harvest completes a finished operation; returns true if one completed.
func (c *Client) Harvest() bool {
	if c.Busy && c.Task.Idle() {
		c.Busy = false
		if c.fin != nil {
			f := c.fin
			c.fin = nil
			f()
		}
		return true
	}
	return false
}

// ErrNum extracts the MySQL error number (0 when not a server error).
func ErrNum(err error) int {
	if me, ok := err.(*mysqldrv.MySQLError); ok {
		return int(me.Number)
	}
	return 0
}

package wiresim

import (
	"context"
	"database/sql/driver"
	"fmt"
	"io"
	"sort"
	"strings"
	"testing"
	"testing/synctest"
	"time"

	"github.com/dolthub/go-mysql-server/memory"
	"github.com/dolthub/go-mysql-server/sql"
	"github.com/dolthub/go-mysql-server/sql/types"

	"verif/sim/kernel"
	"verif/sim/simnet"
)

// inproc is an in-process session on the server's own engine: it gives the
// engine's result for a statement, to which the client-observed result is
// compared.
type inproc struct {
	w    *World
	sess *memory.Session
	pid  uint64
}

func (w *World) newInproc() *inproc {
	bs := sql.NewBaseSessionWithClientServer("inproc", sql.Client{Address: "inproc", User: "root"}, 9999)
	ms := memory.NewSession(bs, w.Pro)
	ms.SetCurrentDatabase("d")
	return &inproc{w: w, sess: ms}
}

type engRes struct {
	err      error
	cols     []string
	rows     [][]string
	affected int64
	lastID   int64
	isOk     bool
}

func renderEngineVal(v any) string {
	switch x := v.(type) {
	case nil:
		return "NULL"
	case string:
		return x
	case []byte:
		return string(x)
	case bool:
		if x {
			return "1"
		}
		return "0"
	case fmt.Stringer:
		return x.String()
	default:
		return fmt.Sprint(x)
	}
}

func (ip *inproc) exec(q string) *engRes {
	ip.pid++
	ctx := sql.NewContext(context.Background(), sql.WithSession(ip.sess), sql.WithPid(1<<40+ip.pid))
	res := &engRes{}
	if err := sql.SessionCommandBegin(ip.sess); err != nil {
		res.err = err
		return res
	}
	defer sql.SessionCommandEnd(ip.sess)
	sch, iter, _, err := ip.w.Eng.Query(ctx, q)
	if err != nil {
		res.err = err
		return res
	}
	for _, c := range sch {
		res.cols = append(res.cols, c.Name)
	}
	for {
		row, err := iter.Next(ctx)
		if err == io.EOF {
			break
		}
		if err != nil {
			res.err = err
			break
		}
		if types.IsOkResultSchema(sch) {
			if ok, isOk := row[0].(types.OkResult); isOk {
				res.isOk, res.affected, res.lastID = true, int64(ok.RowsAffected), int64(ok.InsertID)
				continue
			}
		}
		r := make([]string, len(row))
		for i, v := range row {
			r[i] = renderEngineVal(v)
		}
		res.rows = append(res.rows, r)
	}
	if cerr := iter.Close(ctx); cerr != nil && res.err == nil {
		res.err = cerr
	}
	return res
}

func (ip *inproc) must(q string) {
	if r := ip.exec(q); r.err != nil {
		kernel.Harnessf("setup statement failed: %s: %v", q, r.err)
	}
}

// sizes around the seams of the spool pipeline: rowsBatch = 128 rows per
// result packet batch, 512-slot row channel, 4-slot result channel.
var c35Seams = []int{0, 1, 2, 127, 128, 129, 255, 256, 257, 511, 512, 513, 514, 640, 641}

type c35Op struct {
	kind     string
	q        string
	args     []driver.Value
	prepared bool
	exec     bool
	write    bool
	res      Res
	expect   *engRes
	started  time.Duration
}

func checkC35(t *testing.T) kernel.CheckFn {
	return func(env *kernel.Env) {
		synctest.Test(t, func(t *testing.T) { runC35(env) })
	}
}

func runC35(env *kernel.Env) {
	T := env.T
	// yield sites inside the spool pipeline (swarm: a random subset per run).
	// Runs that hold server goroutines at yield sites switch the disconnect
	// watcher off: with queries kept in flight for long the watcher's own
	// goroutines (promotion, outstanding-read, teardown with racing select
	// cases) made 1 run in ~2000 unrepeatable, which replay-exactness cannot
	// afford; runs without armed sites keep the watcher on.
	var armed []string
	for _, site := range []string{"spool.final", "spool.callback", "spool.batch"} {
		if T.Bool(1, 3) {
			armed = append(armed, site)
		}
	}
	w := NewWorld(env, Opts{DisableWatcher: len(armed) > 0 || env.Opts["nowatch"] == "1"})
	defer w.Close()
	for _, site := range armed {
		w.Sched.Arm(site)
	}
	env.Flag("yield-sites-armed", len(armed) > 0)
	env.Flag("disconnect-watcher-on", len(armed) == 0)
	ip := w.newInproc()
	nrows := []int{3, 130, 260, 515, 700}[T.Pick(2, 3, 3, 3, 2)]
	if env.Tier == "thorough" && T.Bool(1, 4) {
		nrows = 2100
	}
	ip.must("CREATE TABLE big (id INT PRIMARY KEY, v INT, s VARCHAR(16))")
	var sb strings.Builder
	for i := 0; i < nrows; i++ {
		if i%200 == 0 {
			if sb.Len() > 0 {
				ip.must(sb.String())
				sb.Reset()
			}
			sb.WriteString("INSERT INTO big VALUES ")
		} else {
			sb.WriteString(",")
		}
		if i%7 == 3 {
			fmt.Fprintf(&sb, "(%d,NULL,NULL)", i)
		} else {
			fmt.Fprintf(&sb, "(%d,%d,'s%d')", i, (i*37)%1000, i)
		}
	}
	if sb.Len() > 0 {
		ip.must(sb.String())
	}
	ip.must("CREATE TABLE two (k INT)")
	ip.must("INSERT INTO two VALUES (1),(2)")
	ip.must("CREATE TABLE w (id INT PRIMARY KEY AUTO_INCREMENT, x INT)")
	// tiny model of table w for write statements
	wrows := map[int64]int64{}
	nextAuto := int64(1)

	nclients := T.Range(1, 4)
	backpressure := T.Bool(1, 3)
	fragment := T.Bool(2, 3)
	resets := 0
	if T.Bool(1, 3) {
		resets = T.Range(1, 2)
	}
	env.Flag("faulty", resets > 0 || backpressure)
	env.Flag("fault-free", resets == 0 && !backpressure)
	env.Logf("cfg rows=%d clients=%d backpressure=%v fragment=%v resets=%d", nrows, nclients, backpressure, fragment, resets)
	if backpressure {
		w.Net.ServerToClientCap = []int{512, 4096, 100}[T.Draw(3)]
	}
	env.Logf("armed yield sites: %v", w.Sched.ArmedSites())
	type cl struct {
		*Client
		left      int
		cur       *c35Op
		connected bool
		connErr   error
	}
	var clients []*cl
	for i := 0; i < nclients; i++ {
		clients = append(clients, &cl{Client: w.NewClient(fmt.Sprintf("c%d", i+1)), left: T.Range(1, 6)})
	}
	if nclients >= 2 {
		env.Nontrivial()
	}
	lastFault := time.Duration(0)
	writeInFlight := false
	busyCount := func() int {
		n := 0
		for _, c := range clients {
			if c.Busy {
				n++
			}
		}
		return n
	}
	genOp := func() *c35Op {
		k := c35Seams[T.Draw(len(c35Seams))]
		if k > nrows {
			k = nrows
		}
		if T.Bool(1, 3) {
			k = T.Draw(nrows + 1)
		}
		switch T.Pick(6, 2, 2, 2, 2, 1, 6, 1, 3, 4) {
		case 9:
			// statement shapes that take the handler's special result paths (at most
			// one row, no rows, no table) and combinations of them in set operations
			id := T.Draw(nrows + 2)
			shapes := []string{
				"SELECT id, v, s FROM big WHERE id = %d",
				"SELECT v FROM big WHERE id = %d UNION ALL SELECT 7",
				"SELECT 7 UNION ALL SELECT v FROM big WHERE id = %d",
				"SELECT v FROM big WHERE id = %d UNION SELECT v FROM big WHERE id < 4",
				"(SELECT id FROM big WHERE id = %d) UNION ALL (SELECT id FROM big ORDER BY id LIMIT 3)",
				"SELECT v FROM big WHERE id = %d UNION ALL SELECT 7 UNION ALL SELECT 8",
				"SELECT id FROM big WHERE id = %d AND v < 0",
				"SELECT id, v FROM big WHERE id < %d LIMIT 0",
				"SELECT %d AS n, 'x' AS x, NULL AS z",
				"SELECT id FROM big WHERE id IN (SELECT k FROM two WHERE k = %d)",
				"SELECT (SELECT v FROM big WHERE id = %d) AS sq, 5 AS five",
				"SELECT COUNT(*) FROM big WHERE id = %d",
				"SELECT id, v FROM big WHERE id = %d OR id = 2 ORDER BY id",
			}
			sh := shapes[T.Draw(len(shapes))]
			if T.Bool(1, 3) {
				return &c35Op{kind: "shape-prepared", q: strings.Replace(sh, "%d", "?", 1), args: []driver.Value{int64(id)}, prepared: true}
			}
			return &c35Op{kind: "shape", q: fmt.Sprintf(sh, id)}
		case 0:
			return &c35Op{kind: "select-range", q: fmt.Sprintf("SELECT id, v, s FROM big WHERE id < %d ORDER BY id", k)}
		case 1:
			return &c35Op{kind: "select-all", q: "SELECT * FROM big"}
		case 2:
			// an error raised while iterating. In this (replay-exact) check it is
			// raised at the first row: how many batches overtake an error raised at
			// row r > 0 is decided by Go's random choice among ready select cases
			// inside the spool pipeline, which no seed controls; that variant lives
			// in the volatile sub-check C35v.
			return &c35Op{kind: "select-row-error", q: "SELECT id, (SELECT k FROM two WHERE two.k <= big.id + 2) FROM big ORDER BY id"}
		case 3:
			return &c35Op{kind: "select-agg", q: fmt.Sprintf("SELECT COUNT(*), SUM(v), MAX(s) FROM big WHERE id < %d", k)}
		case 4:
			return &c35Op{kind: "prepared-range", q: "SELECT id, v, s FROM big WHERE id < ? ORDER BY id", args: []driver.Value{int64(k)}, prepared: true}
		case 5:
			return &c35Op{kind: "plan-error", q: "SELECT nope FROM big"}
		case 6:
			switch T.Pick(2, 2, 2, 3) {
			case 3:
				// a statement that fails while it executes (duplicate key on its second
				// row): the error must reach the client and the connection must go on
				// seeing current data
				var ids []int64
				for id := range wrows {
					ids = append(ids, id)
				}
				sort.Slice(ids, func(i, j int) bool { return ids[i] < ids[j] })
				dup := int64(1)
				if len(ids) > 0 {
					dup = ids[T.Draw(len(ids))]
				}
				return &c35Op{kind: "insert-dup", q: fmt.Sprintf("INSERT INTO w (id, x) VALUES (%d, 1),(%d, 2)", 9000+T.Draw(50), dup), exec: true, write: true}
			case 0:
				return &c35Op{kind: "insert", q: fmt.Sprintf("INSERT INTO w (x) VALUES (%d),(%d)", T.Draw(50), T.Draw(50)), exec: true, write: true}
			case 1:
				return &c35Op{kind: "update", q: fmt.Sprintf("UPDATE w SET x = x + 1 WHERE id <= %d", T.Draw(6)), exec: true, write: true}
			default:
				return &c35Op{kind: "delete", q: fmt.Sprintf("DELETE FROM w WHERE id = %d", T.Draw(6)+1), exec: true, write: true}
			}
		case 7:
			return &c35Op{kind: "sleep", q: "SELECT SLEEP(0.05), 7"}
		default:
			return &c35Op{kind: "select-w", q: "SELECT id, x FROM w ORDER BY id"}
		}
	}
	expectWrite := func(op *c35Op) *engRes {
		e := &engRes{isOk: true}
		var a, b, k int64
		switch op.kind {
		case "insert-dup":
			fmt.Sscanf(op.q, "INSERT INTO w (id, x) VALUES (%d, 1),(%d, 2)", &a, &b)
			_, dupA := wrows[a]
			if _, ok := wrows[b]; ok || dupA {
				e.isOk, e.err = false, sql.NewUniqueKeyErr("dup", true, nil)
			} else {
				// the row was deleted meanwhile (or never existed): both rows go in
				e.affected = 2
				wrows[a], wrows[b] = 1, 2
				if a >= nextAuto {
					nextAuto = a + 1
				}
			}
		case "insert":
			fmt.Sscanf(op.q, "INSERT INTO w (x) VALUES (%d),(%d)", &a, &b)
			e.affected, e.lastID = 2, nextAuto
			wrows[nextAuto], wrows[nextAuto+1] = a, b
			nextAuto += 2
		case "update":
			fmt.Sscanf(op.q, "UPDATE w SET x = x + 1 WHERE id <= %d", &k)
			for id := range wrows {
				if id <= k {
					wrows[id]++
					e.affected++
				}
			}
		case "delete":
			fmt.Sscanf(op.q, "DELETE FROM w WHERE id = %d", &k)
			if _, ok := wrows[k]; ok {
				delete(wrows, k)
				e.affected = 1
			}
		}
		return e
	}
	// checkW: with no write in flight the table w, read in process, is what the
	// acknowledged writes of all connections add up to (a connection that kept a
	// stale transaction open would commit its old copy over later writes)
	checkW := func(after string) {
		r := ip.exec("SELECT id, x FROM w ORDER BY id")
		if r.err != nil {
			return
		}
		var got, want []string
		for _, row := range r.rows {
			got = append(got, strings.Join(row, ":"))
		}
		var ids []int64
		for id := range wrows {
			ids = append(ids, id)
		}
		sort.Slice(ids, func(i, j int) bool { return ids[i] < ids[j] })
		for _, id := range ids {
			want = append(want, fmt.Sprintf("%d:%d", id, wrows[id]))
		}
		if strings.Join(got, " ") != strings.Join(want, " ") {
			env.Fail("acknowledged-writes-stay", "committed-write-lost", "after %s table w holds [%s]; the writes acknowledged to the clients add up to [%s]", after, strings.Join(got, " "), strings.Join(want, " "))
		}
	}
	finish := func(c *cl) {
		op := c.cur
		c.cur = nil
		if op.write {
			writeInFlight = false
		}
		defer func() {
			if !writeInFlight && !env.Failed() && c.NetID >= 0 {
				checkW(c.Name + " " + op.kind)
			}
		}()
		env.Kind("ret:" + op.kind)
		if op.res.Err != nil && c.NetID < 0 {
			// the connection was reset while this statement was in flight: the client
			// must see an error, and what it did receive must be a prefix
			env.Logf("  ret %s %s -> client error after reset (%d rows received)", c.Name, op.kind, len(op.res.Rows))
			if op.expect != nil {
				for i, r := range op.res.Rows {
					if i >= len(op.expect.rows) || strings.Join(r, "|") != strings.Join(op.expect.rows[i], "|") {
						env.Fail("prefix-under-disconnect", "not-a-prefix", "%s: row %d received before the reset is %v, the engine's row there is %v", op.q, i, r, rowAt(op.expect.rows, i))
						return
					}
				}
			}
			c.connected = false
			c.Conn = nil
			return
		}
		exp := op.expect
		if exp == nil {
			return
		}
		if op.res.Err != nil {
			// how many rows reach the client before an error raised mid-iteration is
			// a race inside the spool pipeline; it is not part of the trace
			env.Logf("  ret %s %s -> error", c.Name, op.kind)
		} else {
			env.Logf("  ret %s %s -> ok rows=%d affected=%d", c.Name, op.kind, len(op.res.Rows), op.res.Affected)
		}
		if (exp.err != nil) != (op.res.Err != nil) {
			env.Fail("wire-equals-engine", "error-presence:"+op.kind, "%s: engine error = %v, client error = %v", op.q, exp.err, op.res.Err)
			return
		}
		if exp.err != nil {
			want := sql.CastSQLError(exp.err).Num
			if got := ErrNum(op.res.Err); got != want {
				env.Fail("wire-equals-engine", "error-number:"+op.kind, "%s: engine error %d (%v), client saw %d (%v)", op.q, want, exp.err, got, op.res.Err)
			}
			env.Probe("error-delivered:" + op.kind)
			// rows sent before the error are a prefix of what the engine produced before it
			for i, r := range op.res.Rows {
				if i >= len(exp.rows) || strings.Join(r, "|") != strings.Join(exp.rows[i], "|") {
					env.Fail("wire-equals-engine", "rows-before-error-not-a-prefix:"+op.kind, "%s: row %d received before the error is %v, the engine's row there is %v", op.q, i, r, rowAt(exp.rows, i))
					return
				}
			}
			return
		}
		if op.exec {
			if op.res.Affected != exp.affected || (op.kind == "insert" && op.res.LastID != exp.lastID) {
				env.Fail("wire-equals-engine", "ok-packet:"+op.kind, "%s: client saw affected=%d last_insert_id=%d, expected %d / %d", op.q, op.res.Affected, op.res.LastID, exp.affected, exp.lastID)
			}
			return
		}
		if strings.Join(op.res.Cols, ",") != strings.Join(exp.cols, ",") {
			env.Fail("wire-equals-engine", "columns:"+op.kind, "%s: client columns %v, engine columns %v", op.q, op.res.Cols, exp.cols)
			return
		}
		if len(op.res.Rows) != len(exp.rows) {
			cls := "rows-lost"
			if len(op.res.Rows) > len(exp.rows) {
				cls = "rows-duplicated"
			}
			env.Fail("wire-equals-engine", cls+":"+op.kind, "%s: client received %d rows, the engine produced %d", op.q, len(op.res.Rows), len(exp.rows))
			return
		}
		for i := range exp.rows {
			if strings.Join(op.res.Rows[i], "|") != strings.Join(exp.rows[i], "|") {
				env.Fail("wire-equals-engine", "row-differs:"+op.kind, "%s: row %d at the client is %v, the engine's is %v", op.q, i, op.res.Rows[i], exp.rows[i])
				return
			}
		}
		if n := len(exp.rows); n > 0 {
			env.Probe(fmt.Sprintf("result-batches:%d", (n+127)/128))
		}
	}
	steps := 0
	for !env.Failed() {
		synctest.Wait()
		steps++
		if steps > 20000 {
			env.Fail("bounded-steps", "livelock", "run did not finish within 20000 scheduler steps")
			break
		}
		for _, c := range clients {
			c := c
			if c.Busy && c.Task.Idle() {
				c.Harvest()
			}
		}
		if env.Failed() {
			break
		}
		// liveness: once faults have stopped, every statement completes within
		// 120 simulated seconds
		for _, c := range clients {
			if c.Busy && c.cur != nil && w.Now()-maxDur(c.cur.started, lastFault) > 120*time.Second {
				env.Fail("bounded-completion", "statement-hangs:"+c.cur.kind, "%s on %s has not completed %v after it started / after the last fault", c.cur.q, c.Name, w.Now()-maxDur(c.cur.started, lastFault))
			}
		}
		if env.Failed() {
			break
		}
		type ev struct {
			kind string
			c    *cl
			h    *simnet.Half
			n    int
			w    int
			t    *kernel.Task
		}
		var evs []ev
		for _, p := range w.Net.PendingHalves() {
			evs = append(evs, ev{kind: "deliver", h: p.Half, n: p.Bytes, w: 6})
			if fragment && p.Bytes > 1 {
				evs = append(evs, ev{kind: "fragment", h: p.Half, n: p.Bytes, w: 3})
			}
		}
		for _, c := range clients {
			if c.Busy {
				if resets > 0 && c.cur != nil && !c.cur.write && c.connected && c.NetID > 0 {
					evs = append(evs, ev{kind: "reset", c: c, w: 1})
				}
				continue
			}
			if !c.connected && (c.left > 0) && !writeInFlight {
				evs = append(evs, ev{kind: "connect", c: c, w: 4})
			} else if c.connected && c.left > 0 && !writeInFlight {
				evs = append(evs, ev{kind: "start", c: c, w: 4})
			}
		}
		parked := w.Sched.ParkedTasks()
		for _, pt := range parked {
			evs = append(evs, ev{kind: "resume", t: pt, w: 4})
		}
		if busyCount() > 0 {
			evs = append(evs, ev{kind: "advance", w: 1})
		}
		if len(evs) == 0 {
			break
		}
		ws := make([]int, len(evs))
		for i, e := range evs {
			ws[i] = e.w
		}
		e := evs[T.Pick(ws...)]
		switch e.kind {
		case "deliver":
			env.Kind("deliver")
			env.Logf("    deliver %s %d bytes", e.h.Name, e.n)
			w.Net.Deliver(e.h, 0)
		case "fragment":
			k := 1 + T.Draw(e.n-1)
			if T.Bool(1, 2) && e.n > 8 {
				k = []int{1, 3, 4, 5, 7}[T.Draw(5)] // inside the 4-byte MySQL packet header and just after it
			}
			env.Kind("fragment")
			env.Fault("fragment")
			env.Logf("    deliver %s %d of %d bytes", e.h.Name, k, e.n)
			w.Net.Deliver(e.h, k)
		case "resume":
			site, _ := e.t.Parked()
			env.Kind("resume:" + site)
			env.Probe("yield:" + site)
			env.Logf("    resume %s", e.t.Name)
			e.t.Resume()
		case "advance":
			env.Kind("advance")
			env.Logf("    advance (t=%v)", w.Now())
			if len(parked) > 0 {
				// a server goroutine is held at a yield site while time passes: a slow thread
				d := []time.Duration{time.Millisecond, 20 * time.Millisecond, 200 * time.Millisecond}[T.Draw(3)]
				env.Fault("slow-server-goroutine")
				w.Sched.Advance(d)
				lastFault = w.Now()
			} else if w.Net.InFlight() {
				// the network withholds bytes while time passes: a stall fault
				d := []time.Duration{time.Millisecond, 20 * time.Millisecond, 200 * time.Millisecond, 3 * time.Second}[T.Pick(4, 4, 2, 1)]
				env.Fault("stall")
				w.Sched.Advance(d)
				lastFault = w.Now()
			} else {
				// nothing to deliver: time simply passes while somebody computes or waits
				d := []time.Duration{time.Millisecond, 20 * time.Millisecond, 200 * time.Millisecond, 5 * time.Second, 70 * time.Second}[T.Pick(4, 4, 2, 1, 1)]
				w.Sched.Advance(d)
			}
		case "connect":
			c := e.c
			env.Kind("connect")
			env.Logf("%s connects", c.Name)
			before := w.Net
			_ = before
			c.connErr = nil
			// the simnet id of this connection is the next one handed out; read before the
			// client task can dial (read after Start, a preemption of this goroutine let
			// the task dial first once in ~10^5 runs and the id of the NEXT connection
			// was recorded: found by the determinism self-check of the thorough tier)
			c.NetID = w.nextNetID()
			c.Start(c.ConnectOp("root", "", "", &c.connErr), func() {
				if c.connErr != nil {
					env.Fail("connect-succeeds", "connect-failed", "%s could not connect: %v", c.Name, c.connErr)
					return
				}
				c.connected = true
			})
		case "start":
			c := e.c
			op := genOp()
			if op.write && busyCount() > 0 {
				// write statements are exclusive (README: one writer goroutine at a time)
				op = &c35Op{kind: "select-agg", q: "SELECT COUNT(*), SUM(v), MAX(s) FROM big WHERE id < 5"}
			}
			c.left--
			c.cur = op
			op.started = w.Now()
			env.Kind("call:" + op.kind)
			env.Logf("%s %s: %s", c.Name, op.kind, op.q)
			if op.write {
				writeInFlight = true
				op.expect = expectWrite(op)
			} else if op.prepared {
				op.expect = ip.exec(strings.Replace(op.q, "?", fmt.Sprint(op.args[0]), 1))
			} else if op.kind == "select-w" {
				// from the model of w, not from the engine: what earlier statements of
				// any connection wrote must be there (a connection that kept a stale
				// transaction would overwrite it)
				e := &engRes{cols: []string{"id", "x"}}
				var ids []int64
				for id := range wrows {
					ids = append(ids, id)
				}
				sort.Slice(ids, func(i, j int) bool { return ids[i] < ids[j] })
				for _, id := range ids {
					e.rows = append(e.rows, []string{fmt.Sprint(id), fmt.Sprint(wrows[id])})
				}
				op.expect = e
			} else if op.kind != "sleep" {
				op.expect = ip.exec(op.q)
			} else {
				op.expect = &engRes{cols: []string{"SLEEP(0.05)", "7"}, rows: [][]string{{"0", "7"}}}
			}
			if op.exec {
				c.Start(c.ExecOp(op.q, &op.res), func() { finish(c) })
			} else {
				c.Start(c.QueryOp(op.q, op.args, op.prepared, &op.res), func() { finish(c) })
			}
		case "reset":
			c := e.c
			resets--
			env.Kind("reset")
			env.Fault("reset-mid-statement")
			env.Logf("RESET connection of %s while %s is in flight", c.Name, c.cur.kind)
			w.Net.Reset(c.NetID)
			c.NetID = -1
			lastFault = w.Now()
		}
	}
	// closing phase: clients close; the server must forget every connection
	w.ReleaseParked()
	if !env.Failed() {
		for _, c := range clients {
			if c.Conn != nil && !c.Busy {
				c.Start(c.CloseOp(), nil)
			}
		}
		deadline := w.Now() + 30*time.Second
		for {
			synctest.Wait()
			for _, c := range clients {
				c.Harvest()
			}
			for _, p := range w.Net.PendingHalves() {
				w.Net.Deliver(p.Half, 0)
			}
			synctest.Wait()
			procs := w.Eng.ProcessList.Processes()
			if len(procs) == 0 && !w.Net.InFlight() {
				break
			}
			if w.Now() > deadline {
				env.Fail("connections-forgotten", "connection-leaked", "30 simulated seconds after every client closed or was reset, the process list still shows %d connection(s)", len(procs))
				break
			}
			w.Sched.Advance(100 * time.Millisecond)
		}
		if !env.Failed() {
			if tc := statusVar("Threads_connected"); tc != 0 {
				env.Fail("counters-return", "threads-connected-leaked", "Threads_connected = %d after all connections ended", tc)
			}
			if tr := statusVar("Threads_running"); tr != 0 {
				env.Fail("counters-return", "threads-running-leaked", "Threads_running = %d after all connections ended", tr)
			}
		}
	}
	for _, c := range clients {
		if c.Task.Idle() {
			c.Task.Close()
		}
	}
	env.SimTimeNs = int64(w.Now())
	env.ProbeN("wire-bytes", w.Net.Stats())
}

func rowAt(rows [][]string, i int) []string {
	if i < len(rows) {
		return rows[i]
	}
	return nil
}

func maxDur(a, b time.Duration) time.Duration {
	if a > b {
		return a
	}
	return b
}

func statusVar(name string) int64 {
	_, v, ok := sql.StatusVariables.GetGlobal(name)
	if !ok {
		return -1
	}
	switch x := v.(type) {
	case uint64:
		return int64(x)
	case int64:
		return x
	case int:
		return int64(x)
	}
	return -2
}

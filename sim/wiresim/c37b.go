package wiresim

import (
	"fmt"
	"strings"
	"testing"
	"testing/synctest"
	"time"

	"verif/sim/kernel"
)

// C37b: process list and KILL over the wire. Worker connections run long and
// short statements (SLEEP on the simulated clock), a killer issues KILL QUERY /
// KILL CONNECTION for live, idle and non-existent ids, an observer reads SHOW
// PROCESSLIST and the Threads_* counters at instants where the expected state
// is unambiguous, and connections may be reset in the middle of a statement
// (disconnect-watcher path).
//
// Oracles: the process list shows exactly the live connections with the
// statement each is definitely running; a statement that was definitely
// running while a KILL QUERY for its connection completed ends with an error
// within a bounded simulated time and the connection's next statement works;
// a KILL that found the connection idle never cancels its next statement;
// nobody but the target is affected; after the run the list and the counters
// are back to zero.

func checkC37b(t *testing.T) kernel.CheckFn {
	return func(env *kernel.Env) {
		synctest.Test(t, func(t *testing.T) { runC37b(env) })
	}
}

func runC37b(env *kernel.Env) {
	T := env.T
	w := NewWorld(env, Opts{})
	defer w.Close()
	type cl struct {
		*Client
		left      int
		connID    int64
		alive     bool
		q         string // statement in flight
		mustDie   bool   // the in-flight statement was definitely running while a KILL QUERY for it completed
		dieBy     time.Duration
		mayDie    bool // a kill raced with the statement's start or end
		safeNext  bool // a KILL found this connection idle: its next statement must not be cancelled
		killedAll bool // KILL CONNECTION targeted it
		res       *Res
	}
	nworkers := T.Range(2, 4)
	var workers []*cl
	var base []*Client
	mk := func(name string, left int) *cl {
		c := &cl{Client: w.NewClient(name), left: left}
		base = append(base, c.Client)
		return c
	}
	for i := 0; i < nworkers; i++ {
		workers = append(workers, mk(fmt.Sprintf("w%d", i+1), T.Range(1, 5)))
	}
	ctl := mk("ctl", T.Range(2, 8)) // observer and killer
	connect := func(c *cl) bool {
		var cerr error
		c.NetID = w.nextNetID()
		c.Start(c.ConnectOp("root", "", "", &cerr), nil)
		if !w.Settle(base, 5*time.Second) || cerr != nil {
			env.Fail("connect-succeeds", "connect-failed", "%s could not connect: %v", c.Name, cerr)
			return false
		}
		var r Res
		c.Start(c.QueryOp("SELECT CONNECTION_ID()", nil, false, &r), nil)
		if !w.Settle(base, 5*time.Second) || r.Err != nil || len(r.Rows) != 1 {
			env.Fail("connect-succeeds", "connection-id-failed", "%s: SELECT CONNECTION_ID() failed: %v", c.Name, r.Err)
			return false
		}
		fmt.Sscan(r.Rows[0][0], &c.connID)
		c.alive = true
		env.Logf("%s connected as connection %d", c.Name, c.connID)
		return true
	}
	for _, c := range append(append([]*cl{}, workers...), ctl) {
		if !connect(c) {
			return
		}
	}
	env.Nontrivial()
	all := append(append([]*cl{}, workers...), ctl)
	pendingOn := func(c *cl) bool {
		for _, p := range w.Net.PendingHalves() {
			if p.Half.Name == fmt.Sprintf("s>c%d", c.NetID) || p.Half.Name == fmt.Sprintf("c%d>s", c.NetID) {
				return true
			}
		}
		return false
	}
	definitelyRunning := func(c *cl) bool { return c.alive && c.Busy && c.q != "" && !pendingOn(c) }
	definitelyIdle := func(c *cl) bool { return c.alive && !c.Busy && !pendingOn(c) }
	// exclusive runs ctl's statement with only ctl's own bytes moving, so that
	// everybody else's state is frozen while the server answers
	exclusive := func(q string) *Res {
		r := &Res{}
		ctl.Start(ctl.QueryOp(q, nil, false, r), nil)
		for i := 0; i < 200; i++ {
			synctest.Wait()
			if ctl.Task.Idle() {
				ctl.Harvest()
				return r
			}
			moved := false
			for _, p := range w.Net.PendingHalves() {
				if p.Half.Name == fmt.Sprintf("c%d>s", ctl.NetID) || p.Half.Name == fmt.Sprintf("s>c%d", ctl.NetID) {
					w.Net.Deliver(p.Half, 0)
					moved = true
				}
			}
			if !moved {
				w.Sched.Advance(time.Millisecond)
			}
		}
		env.Fail("bounded-completion", "control-statement-hangs", "%s did not complete", q)
		return r
	}
	resets := 0
	if T.Bool(1, 3) {
		resets = 1
	}
	startWorker := func(c *cl) {
		c.left--
		c.q = []string{"SELECT SLEEP(0.2), 1", "SELECT SLEEP(2), 2", "SELECT SLEEP(30), 3", "SELECT 40 + 2"}[T.Pick(2, 3, 3, 2)]
		env.Kind("call:worker")
		env.Logf("%s: %s", c.Name, c.q)
		safe := c.safeNext
		c.safeNext = false
		c.mustDie, c.mayDie = false, false
		r := &Res{}
		c.res = r
		q := c.q
		c.Start(c.QueryOp(q, nil, false, r), func() {
			env.Kind("ret:worker")
			killed := r.Err != nil
			env.Logf("  ret %s %s -> error=%v", c.Name, q, killed)
			switch {
			case killed && c.killedAll:
				c.alive = false
			case killed && !c.alive:
				// reset connection
			case killed && !c.mustDie && !c.mayDie:
				cls := "untargeted-statement-cancelled"
				if safe {
					cls = "kill-affected-later-statement"
				}
				env.Fail("kill-only-target", cls, "%s on connection %d failed (%v) although no KILL targeted it while it ran", q, c.connID, r.Err)
			case !killed && c.mustDie:
				env.Fail("kill-cancels-target", "killed-statement-completed", "%s on connection %d completed normally although a KILL QUERY for it completed while it was running", q, c.connID)
			}
			if killed && c.mustDie {
				env.Probe("kill-query-hit-running-statement")
			}
			c.q, c.mustDie, c.mayDie = "", false, false
		})
	}
	w.Drive(DriveCfg{
		Clients:  base,
		Fragment: T.Bool(1, 4),
		Advances: []time.Duration{time.Millisecond, 30 * time.Millisecond, 300 * time.Millisecond, 3 * time.Second},
		Invariant: func() {
			for _, c := range workers {
				if c.Busy && c.mustDie && w.Now() > c.dieBy && w.Now() > w.LastStall+time.Second {
					env.Fail("kill-cancels-target", "killed-statement-keeps-running", "%s on connection %d is still running %v after the KILL QUERY completed", c.q, c.connID, w.Now()-c.dieBy+time.Second)
				}
			}
		},
		Events: func() []Ev {
			var evs []Ev
			for _, c := range workers {
				c := c
				if c.alive && !c.Busy && c.left > 0 {
					evs = append(evs, Ev{"start-worker", 5, func() { startWorker(c) }})
				}
				if resets > 0 && c.alive && c.Busy && c.q != "" && c.NetID > 0 {
					evs = append(evs, Ev{"reset", 1, func() {
						resets--
						env.Fault("reset-mid-statement")
						env.Logf("RESET connection of %s while %s is in flight", c.Name, c.q)
						w.Net.Reset(c.NetID)
						c.alive = false
						c.NetID = -1
					}})
				}
			}
			if ctl.alive && !ctl.Busy && ctl.left > 0 {
				evs = append(evs, Ev{"observe", 3, func() {
					ctl.left--
					// expected state, fixed while the control statement runs
					type exp struct {
						must, may bool
						q         string
					}
					want := map[int64]exp{}
					uncertainConn := false
					for _, c := range workers {
						switch {
						case c.killedAll:
							uncertainConn = true // KILL CONNECTION: teardown is asynchronous
						case definitelyRunning(c):
							want[c.connID] = exp{must: true, q: c.q}
						case definitelyIdle(c):
							want[c.connID] = exp{}
						case c.alive:
							want[c.connID] = exp{may: true, q: c.q}
						default:
							uncertainConn = true // being torn down: may or may not be listed
						}
					}
					r := exclusive("SHOW PROCESSLIST")
					if env.Failed() {
						return
					}
					if r.Err != nil {
						env.Fail("processlist-readable", "show-processlist-failed", "SHOW PROCESSLIST failed: %v", r.Err)
						return
					}
					seen := map[int64]bool{}
					for _, row := range r.Rows {
						var id int64
						fmt.Sscan(row[0], &id)
						seen[id] = true
						cmd, info := row[4], row[len(row)-1]
						if id == ctl.connID {
							if cmd != "Query" || !strings.Contains(info, "SHOW PROCESSLIST") {
								env.Fail("processlist-equals-model", "observer-entry-wrong", "the observer's own entry shows command=%s info=%s", cmd, info)
							}
							continue
						}
						e, known := want[id]
						if !known {
							if !uncertainConn {
								env.Fail("processlist-equals-model", "unknown-connection-listed", "SHOW PROCESSLIST lists connection %d, which is not connected", id)
							}
							continue
						}
						switch {
						case e.must && (cmd != "Query" || info != e.q):
							env.Fail("processlist-equals-model", "running-query-not-shown", "connection %d is running %q but the list shows command=%s info=%q", id, e.q, cmd, info)
						case !e.must && !e.may && cmd != "Sleep":
							env.Fail("processlist-equals-model", "idle-connection-shown-busy", "connection %d is idle but the list shows command=%s info=%q", id, cmd, info)
						case e.may && cmd == "Query" && info != e.q:
							env.Fail("processlist-equals-model", "wrong-query-shown", "connection %d can only be running %q but the list shows %q", id, e.q, info)
						}
					}
					for id := range want {
						if !seen[id] {
							env.Fail("processlist-equals-model", "connection-missing", "connection %d is connected but SHOW PROCESSLIST does not list it", id)
						}
					}
					env.Probe("processlist-compared")
				}})
				evs = append(evs, Ev{"kill", 3, func() {
					ctl.left--
					target := workers[T.Draw(len(workers))]
					kind := []string{"QUERY", "QUERY", "CONNECTION"}[T.Draw(3)]
					id := target.connID
					if T.Bool(1, 6) {
						id = 9000 + int64(T.Draw(5)) // never existed
						target = nil
					}
					running, idle := false, false
					if target != nil {
						running, idle = definitelyRunning(target), definitelyIdle(target)
					}
					q := fmt.Sprintf("KILL %s %d", kind, id)
					env.Fault("kill-" + strings.ToLower(kind))
					r := exclusive(q)
					env.Logf("ctl: %s (target running=%v idle=%v) -> err=%v", q, running, idle, r.Err != nil)
					if target == nil || !target.alive {
						return
					}
					if r.Err != nil {
						env.Fail("kill-accepted", "kill-rejected", "%s for a live connection failed: %v", q, r.Err)
						return
					}
					if kind == "CONNECTION" {
						target.killedAll = true
						target.mayDie = true
						if running {
							target.mustDie, target.dieBy = true, w.Now()+time.Second
						}
						return
					}
					switch {
					case running && definitelyRunning(target):
						target.mustDie, target.dieBy = true, w.Now()+time.Second
					case idle && definitelyIdle(target):
						target.safeNext = true
					default:
						target.mayDie = true
					}
				}})
			}
			return evs
		},
	})
	if env.Failed() {
		return
	}
	// visitors that never become sessions: one leaves after the greeting, one sends its
	// handshake response and leaves, one is refused (no such account); the server has to
	// forget them like everybody else
	if nv := T.Draw(4); nv > 0 {
		visitor := mk("visitor", 0)
		for i := 0; i < nv; i++ {
			stop := []int{1, 2, 0}[T.Draw(3)]
			env.Kind(fmt.Sprintf("visitor:%d", stop))
			env.Fault("unauthenticated-visitor")
			visitor.Start(func() {
				c, err := w.Net.Dial()
				if err != nil {
					return
				}
				rawLogin(c, "nosuchuser", "x", "", 0, stop, false)
			}, nil)
			w.Settle(base, 10*time.Second)
		}
		defer func() {
			if visitor.Task.Idle() {
				visitor.Task.Close()
			}
		}()
	}
	for _, c := range all {
		if !c.Busy && c.Conn != nil {
			c.Start(c.CloseOp(), nil)
		}
	}
	w.Settle(base, 60*time.Second)
	deadline := w.Now() + 5*time.Second
	for {
		synctest.Wait()
		if len(w.Eng.ProcessList.Processes()) == 0 {
			break
		}
		if w.Now() > deadline {
			env.Fail("connections-forgotten", "connection-leaked", "5 simulated seconds after every connection ended the process list still has %d entries", len(w.Eng.ProcessList.Processes()))
			break
		}
		w.Sched.Advance(50 * time.Millisecond)
	}
	if !env.Failed() {
		if tc := statusVar("Threads_connected"); tc != 0 {
			env.Fail("counters-return", "threads-connected-leaked", "Threads_connected = %d after all connections ended", tc)
		}
		if tr := statusVar("Threads_running"); tr != 0 {
			env.Fail("counters-return", "threads-running-leaked", "Threads_running = %d after all connections ended", tr)
		}
	}
	for _, c := range all {
		if c.Task.Idle() {
			c.Task.Close()
		}
	}
	env.SimTimeNs = int64(w.Now())
}

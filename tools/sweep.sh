#!/bin/bash
# usage: sweep.sh <seed> <props...>   thorough tier, separate work dir, no evidence
seed=$1; shift
export VERIF_WORK=work-sweep
export VERIF_REPO=${SWEEP_REPO:-/repo}
cd /verif
for p in "$@"; do
  start=$(date +%s)
  out=$(timeout 3600 bin/verif check $p --tier thorough --seed $seed --no-evidence 2>&1 | grep -v "^KNOWN-FINDING\|^built " | tail -4 | cut -c1-400)
  echo "== $p seed=$seed $(( $(date +%s) - start ))s"; echo "$out"
done

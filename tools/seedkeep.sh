#!/bin/bash
# usage: tools/seedkeep.sh <name> <property> [worktree-id] — evaluate a seeded change and keep it under /verif/seeded/<name>/
touch /tmp/.seedstart.$$
name=$1; prop=$2
d=/verif/seeded/$name
mkdir -p $d
/verif/tools/seedeval.sh "$@" > $d/eval.log 2>&1
cp /tmp/seed/out/$name/patch.diff $d/
cp /tmp/seed/out/$name/*.go $d/ 2>/dev/null
python3 - "$name" "$prop" <<'PY'
import json,sys,re
name,prop=sys.argv[1:3]
d='/verif/seeded/%s/'%name
m=json.load(open('/tmp/seed/out/%s/meta.json'%name))
log=open(d+'eval.log').read()
sec=lambda a,b: log[log.find(a):log.find(b)] if a in log and b in log else ''
without=sec('--- demo WITHOUT','--- build with'); withc=sec('--- demo WITH the change','--- pinned')
m['breaks_property']=prop
m['confirmed_demo_passes_without_change']=('ok ' in without and 'FAIL' not in without)
m['confirmed_demo_fails_with_change']=('FAIL' in withc)
m['pinned_tests_pass_with_change']=('FAIL' not in sec('--- pinned','--- the check'))
mm=re.search(r'check exit=(\d+)',log)
m['check_exit']=int(mm.group(1)) if mm else None
m['check_caught']=(m['check_exit']==1)
v=re.search(r'\n  (\S+/\S+: .*)\nVIOLATION',log)
m['check_reported']=v.group(1)[:400] if v else None
m['what_i_ran']='tools/seedeval.sh %s %s: demo without/with the change in a scratch worktree, overlay build, pinned tests, then `git -C /repo apply patch.diff; bin/verif check %s --tier quick; git -C /repo checkout -- .`'%(name,prop,prop)
json.dump(m,open(d+'meta.json','w'),indent=1)
print(name,'demo_ok_without=',m['confirmed_demo_passes_without_change'],'demo_fails_with=',m['confirmed_demo_fails_with_change'],'pinned_ok=',m['pinned_tests_pass_with_change'],'check_caught=',m['check_caught'],'|',m['check_reported'])
PY
find /verif/replays -type f -name '*-seed1-*' -newer /tmp/.seedstart.$$ -delete; rm -f /tmp/.seedstart.$$

#!/bin/bash
# usage: runw.sh <world> <check> <runs> [seed]
export GOFLAGS=-mod=mod GOPROXY=off GOSUMDB=off GOTOOLCHAIN=local
cd /verif/sim && go1.26.8 test -c -tags verif -vet=off -overlay /verif/bin/work/overlay.json -o /tmp/$1.test ./$1 || exit 9
cd /tmp && GODEBUG=asyncpreemptoff=1 VERIF_FINDINGS=${FINDINGS:-} VERIF_OPTS=${OPTS:-} VERIF_TIER=${TIER:-quick} VERIF_CHECK=$2 VERIF_MODE=batch VERIF_RUNS=$3 VERIF_OUT=/tmp/$2.json VERIF_SEED=${4:-1} GOMAXPROCS=1 /tmp/$1.test -test.run '^TestWorker$' -test.timeout 0 2>&1 | tail -${TAIL:-5}
python3 - "$2" <<'PY'
import json,sys
s=json.load(open('/tmp/%s.json'%sys.argv[1]))
print({k:v for k,v in s.items() if not isinstance(v,(list,dict))})
print('probes',s['probes']); print('faults',s['faults'],'flags',s['flags'],'fps',len(s['fingerprints']))
print('findings',s['findings'])
if s.get('violation'):
    v=s['violation']; print(v['run'], v['result']['violation']['oracle'], v['result']['violation']['class']); print('\n'.join(v['result']['trace'][-60:]))
PY

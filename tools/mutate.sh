#!/bin/bash
# usage: tools/mutate.sh <property> <file> <python-expr-old> <new>   (applies a textual replacement to /repo/<file>, runs the quick check, reverts)
# or:    tools/mutate.sh <property> --patch <patch.diff>
set -u
prop=$1; shift
cd /repo
if [ "$1" = "--patch" ]; then
  git apply "$2" || { echo "patch does not apply"; exit 9; }
else
  python3 - "$1" "$2" "$3" <<'PY' || { git checkout -- .; exit 9; }
import sys
p,old,new=sys.argv[1:4]
s=open(p).read()
if s.count(old)<1: print("pattern not found"); sys.exit(1)
s=s.replace(old,new,1)
open(p,'w').write(s)
PY
fi
cd /verif
timeout 900 bin/verif check $prop --tier quick --no-evidence ${EXTRA:-} 2>&1 | grep -v "^KNOWN-FINDING" | tail -${TAIL:-6}
rc=${PIPESTATUS[0]}
git -C /repo checkout -- .
echo "mutation exit=$rc"

#!/bin/bash
# usage: tools/seedprep.sh <slot-name> <property-id> [hint text]
# Prepares /tmp/seed/<slot> (scratch worktree of /repo HEAD), its build overlay and the sub-agent prompt
# (/tmp/seed/<slot>.prompt.txt) containing ONLY the property text. Nothing from /verif is given to the agent.
set -eu
slot=$1; prop=$2; hint=${3:-}
mkdir -p /tmp/seed/out/$slot
[ -f /tmp/seed/srs.go ] || cp "$(python3 -c "import json;print(list(json.load(open('/verif/bin/work/overlay.json'))['Replace'].values())[0])")" /tmp/seed/srs.go
[ -d /tmp/seed/$slot ] || git -C /repo worktree add -q --detach /tmp/seed/$slot HEAD
echo "{\"Replace\":{\"/tmp/seed/$slot/sql/types/spatial_reference_systems.go\":\"/tmp/seed/srs.go\"}}" > /tmp/seed/$slot.overlay.json
python3 - "$slot" "$prop" "$hint" <<'PY'
import json,sys
slot,prop,hint=sys.argv[1:4]
for l in open('/verif/properties.jsonl'):
    o=json.loads(l)
    if o['id']==prop: break
text="%s: %s\n\n%s\n\nQuantifier: %s\n\nAnchors (files): %s\n"%(o['id'],o['title'],o['statement'],o['quantifier']['text'],", ".join(o['anchors']['files']))
t=open('/verif/tools/seed_prompt.tmpl').read()
t=t.replace('@ID@',slot).replace('@PROPERTY@',text).replace('@HINT@',hint).replace('"property": "%s"'%slot,'"property": "%s"'%prop)
open('/tmp/seed/%s.prompt.txt'%slot,'w').write(t)
PY
echo "prepared /tmp/seed/$slot"

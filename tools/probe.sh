#!/bin/bash
# usage: tools/probe.sh "<stmt> ;; <stmt> ;; ..."   — run statements on a fresh engine (sqlsim world) and print outcomes
export GOFLAGS=-mod=mod GOPROXY=off GOSUMDB=off GOTOOLCHAIN=local
cd /verif/sim && PROBE_SQL="$1" go1.26.8 test -tags verif -vet=off -overlay /verif/bin/work/overlay.json -count=1 -v -run '^TestProbe$' ./sqlsim 2>&1 | grep -v "^ok\|^PASS\|^=== RUN\|^--- PASS"

#!/bin/bash
# usage: tools/seedeval.sh <seed-dir-name under /tmp/seed/out> <property> [worktree-id]
# Confirms a seeded change (demo fails with it, passes without; builds; pinned tests pass), then runs the
# property's quick check against it in /repo and undoes it.
set -u
name=$1; prop=$2; wt=/tmp/seed/${3:-$1}
out=/tmp/seed/out/$name
export GOFLAGS=-mod=mod GOPROXY=off GOSUMDB=off GOTOOLCHAIN=local
ov=/tmp/seed/${3:-$1}.overlay.json
meta=$out/meta.json
demo_path=$(python3 -c "import json;print(json.load(open('$meta'))['demo_path'].split()[0])")
demo_file=$(ls $out | grep '\.go$' | head -1)
[ -n "$demo_file" ] || { echo 'no demo file'; exit 9; }
pkg=./$(dirname $demo_path)/
run=$(grep -o 'func Test[A-Za-z0-9_]*' $out/$demo_file | head -1 | sed 's/func //')
cd $wt && git checkout -q . && git clean -fdq
mkdir -p "$(dirname "$wt/$demo_path")"; cp "$out/$demo_file" "$wt/$demo_path"
echo "--- demo WITHOUT the change (must pass)"
go1.26.8 test -vet=off -overlay $ov -count=1 -run "$(grep -o 'func Test[A-Za-z0-9_]*' $out/$demo_file | sed 's/func //' | paste -sd'|')" $pkg 2>&1 | tail -3
git apply $out/patch.diff || { echo "PATCH DOES NOT APPLY"; exit 9; }
echo "--- build with the change"
go1.26.8 build -overlay $ov ./... 2>&1 | tail -3
echo "--- demo WITH the change (must fail)"
go1.26.8 test -vet=off -overlay $ov -count=1 -run "$(grep -o 'func Test[A-Za-z0-9_]*' $out/$demo_file | sed 's/func //' | paste -sd'|')" $pkg 2>&1 | tail -6
echo "--- pinned tests with the change"
rm -f "$wt/$demo_path"
(unset GOFLAGS GOSUMDB GOTOOLCHAIN; go test -mod=mod -vet=off -count=1 ./errguard/... ./internal/... ./sql/sqlredact/... ./sql/in_mem_table/... ./sql/planbuilder/dateparse/... ./optgen/... ./enginetest/scriptgen/... 2>&1 | grep -v "no test files" | tail -12)
git checkout -q . && git clean -fdq
echo "--- the check against the change in /repo"
cd /repo && git apply $out/patch.diff || { echo "PATCH DOES NOT APPLY TO /repo"; exit 9; }
cd /verif && timeout 1200 bin/verif check $prop --tier quick --no-evidence ${EXTRA:-} 2>&1 | grep -v "^KNOWN-FINDING" | cut -c1-600 | tail -5
rc=${PIPESTATUS[0]}
git -C /repo checkout -- .
echo "check exit=$rc"

#!/usr/bin/env python3
"""Regenerates /verif/MANIFEST.json from the tables below and validates it."""
import json, subprocess, sys, os

HOOK_COMMITS = subprocess.run(["git", "-C", "/repo", "log", "--format=%H %s", "86466a5c3..HEAD"],
                              capture_output=True, text=True).stdout.strip().split("\n")
hook_commits = [l.split()[0] for l in HOOK_COMMITS if l and ("verif" in l.split(" ", 1)[1].lower()) and not l.split(" ", 1)[1].startswith("fix:")]

NA = {
 "C01": "result independent of the chosen physical plan: for a fixed database the result is a pure function of (query, data); the plan choice is made deterministically by the optimizer from that input, there is no schedule, clock, fault or interleaving that makes it vary. Steering the memo through the Coster seam from a seed (considered in DESIGN.md section 5) would be input generation / metamorphic testing in simulator vocabulary, which the brief asks not to do. The history-dependent part of the concern - results going stale or wrong when statistics, indexes or data change under a cached plan - is covered by C11 and C16, which are claimed",
 "C02": "result equals SQL semantics: a pure function of (query, data); deciding it needs an independent SQL evaluator and input generation - no schedule, fault or clock to search",
 "C03": "index lookup = full scan for every filter: pure function of (filter, rows, index shape); the history version of the concern is C16, which is claimed",
 "C04": "ORDER BY / LIMIT slices: pure function of one statement and the data",
 "C05": "predicate partitions rows (TLP): metamorphic relation over inputs only",
 "C06": "equivalent formulations agree: metamorphic relation over inputs only",
 "C07": "grouping uses '=' equality: property of value pairs and hashing; no state, time or interleaving",
 "C08": "aggregates and window functions: pure functions of a partition's rows",
 "C09": "values conform to the result schema: per-statement input property",
 "C10": "no input crashes the engine: quantifies over statement texts (fuzzing); a crash inside any simulated run is still reported against the property being run",
 "C22": "SHOW CREATE round-trips: pure function of one DDL statement",
 "C24": "stored procedure semantics: sequential interpreter over program text; no nondeterminism to own",
 "C25": "integer/decimal arithmetic: pure function of operands",
 "C26": "comparison is a total order: algebraic law over value triples",
 "C27": "storing converts exactly or reports: pure function of (value, type)",
 "C28": "wire representation round-trips per value: pure function of (value, type); transport fidelity under schedules is C35",
 "C29": "collation preorder/hash coherence: algebraic law over strings",
 "C30": "charset conversion: pure function of bytes",
 "C31": "date/time parse/format/arithmetic: pure functions of inputs",
 "C32": "JSON round-trip and path laws: pure functions of documents",
 "C33": "REGEXP_* agreement: pure functions of (pattern, subject)",
 "C34": "scalar function identities: pure functions of arguments",
 "C46": "range algebra preserves key sets: pure function of range lists; exhaustive small-domain enumeration would be model checking, not this family",
 "C47": "indexed sets behave like sets: sequential container; an operation sequence with no schedule or fault is a pure function of its input",
 "C49": "closest-name suggestion: pure function of (name, candidates)",
 "C50": "OUTFILE / LOAD DATA round-trip: a pure function of (rows, field / enclosure / escape / line options); the only stream in it (bufio.Scanner over a file, or over the LoadInfile seam for LOCAL) hands the split function whole lines whatever the chunking, and the property does not speak about I/O faults. A probe on the unchanged tree shows the round trip already fails without any fault or schedule (a value holding the enclosure character, a backslash or a newline is written unescaped / cannot be re-read), i.e. it is decided by input generation alone, which is not this technique",
 "C52": "geometry round-trips: pure functions of values (and the SRID table is the emptied file)",
}

# property -> (category, text, level_note, technique, design_ref)
CLAIMED = json.load(open(os.path.join(os.path.dirname(__file__), "claimed.json")))

PLANNED_REASON = "check not built yet in this tree (planned under DESIGN.md section 5); not claimed until its check exists and is sound on the unchanged tree"

props = [json.loads(l)["id"] for l in open("/verif/properties.jsonl")]
checks, na = [], []
for pid in props:
    if pid in CLAIMED:
        c = CLAIMED[pid]
        checks.append({
            "property_id": pid,
            "quick_cmd": f"bin/verif check {pid} --tier quick",
            "thorough_cmd": f"bin/verif check {pid} --tier thorough",
            "evidence_file": f"/verif/evidence/{pid}.json",
            "replay_cmd_template": f"bin/verif replay {pid} {{path}}",
            "engine": "dst",
            "level_claimed": {"category": c["category"], "text": c["text"], "design_ref": c.get("design_ref", "DESIGN.md section 5")},
            "level_note": c["level_note"],
            "technique": c["technique"],
        })
    else:
        na.append({"property_id": pid, "reason": NA.get(pid, PLANNED_REASON)})

m = {
 "version": 1,
 "setup_cmd": "./build.sh",
 "hooks": {
  "guard": "verif",
  "enable": "go build tag `verif` (checks run `go test -c -tags verif` in /verif/sim with `replace github.com/dolthub/go-mysql-server => /repo`; package /repo/verifhook forwards Yield/Fault/Order to the simulator, and is empty without the tag)",
  "baseline_off_cmd": "cd /repo && go test -mod=mod -json -vet=off -count=1 -timeout 25m ./...",
  "source_commits": hook_commits,
  "add_only": True,
 },
 "engines": [{"name": "dst", "path": "/verif/sim", "serves_properties": [c["property_id"] for c in checks],
              "kind_free_text": "deterministic simulation with fault injection: seeded choice tape, cooperative scheduler inside testing/synctest bubbles (fake clock), simulated network and persister, fault points behind build tag verif, reference models and porcupine as oracles, tape shrinking and exact replay"}],
 "checks": checks,
 "not_applicable": na,
 "notes": "Driver: bin/verif (built by ./build.sh). Each check rebuilds its worker binary from /repo's working tree with -tags verif and an overlay for the 0-byte sql/types/spatial_reference_systems.go. Exit 0 held / 1 violation (VIOLATION line + replay file under /verif/replays) / 2 check broken. Known findings: /verif/known_findings.json.",
}
json.dump(m, open("/verif/MANIFEST.json", "w"), indent=1)
try:
    import jsonschema
    jsonschema.validate(m, json.load(open("/root/.vp/MANIFEST.schema.json")))
    print("MANIFEST valid:", len(checks), "claimed,", len(na), "not applicable")
except ImportError:
    print("jsonschema not available; written without validation")

#!/bin/bash
# usage: tools/seedrecheck.sh <name> <property> "<what was strengthened>"  — re-run the property's quick check against a kept seeded change
touch /tmp/.seedstart.$$
name=$1; prop=$2; note=${3:-}
d=/verif/seeded/$name
git -C /repo apply $d/patch.diff || { echo "patch does not apply"; exit 9; }
cd /verif && timeout 1500 bin/verif check $prop --tier quick --no-evidence ${EXTRA:-} 2>&1 | grep -v "^KNOWN-FINDING" | cut -c1-600 | tail -5 > $d/recheck.log
rc=${PIPESTATUS[0]}
git -C /repo checkout -- .
echo "check exit=$rc" >> $d/recheck.log
python3 - "$name" "$rc" "$note" <<'PY'
import json,sys,re
name,rc,note=sys.argv[1:4]
d='/verif/seeded/%s/'%name
m=json.load(open(d+'meta.json'))
log=open(d+'recheck.log').read()
m['first_check_caught']=m.get('first_check_caught',m.get('check_caught'))
m['check_exit']=int(rc); m['check_caught']=(rc=='1')
v=re.search(r'\n  (\S+/\S+: .*)\nVIOLATION',log)
m['check_reported']=v.group(1)[:400] if v else None
if note: m['strengthened']=note
json.dump(m,open(d+'meta.json','w'),indent=1)
print(name,'caught=',m['check_caught'],'|',(m['check_reported'] or '')[:200])
PY
find /verif/replays -type f -name '*-seed1-*' -newer /tmp/.seedstart.$$ -delete; rm -f /tmp/.seedstart.$$

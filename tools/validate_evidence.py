#!/usr/bin/env python3
import json,sys,glob,jsonschema
sch=json.load(open('/root/.vp/EVIDENCE.schema.json'))
bad=0
for f in sorted(glob.glob('/verif/evidence/*.json')):
    try:
        jsonschema.validate(json.load(open(f)),sch); print('ok ',f)
    except Exception as e:
        bad+=1; print('BAD',f,str(e)[:300])
sys.exit(1 if bad else 0)

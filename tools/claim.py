#!/usr/bin/env python3
"""usage: claim.py ID category 'text' 'level_note' 'technique' — adds/updates an entry of tools/claimed.json"""
import json,sys,os
p=os.path.join(os.path.dirname(__file__),'claimed.json')
c=json.load(open(p))
i,cat,text,note,tech=sys.argv[1:6]
c[i]={"category":cat,"text":text,"level_note":note,"technique":tech,"design_ref":"DESIGN.md section 5 "+i}
json.dump(c,open(p,'w'),indent=1)
